import sys, time, importlib
import z3
_n = [0, 0.0]
_orig = z3.Solver.check
def _chk(self, *a):
    t = time.time()
    try:
        return _orig(self, *a)
    finally:
        _n[0] += 1; _n[1] += time.time() - t
z3.Solver.check = _chk
from crosshair.core_and_libs import analyze_function, run_checkables, MessageType
from crosshair.options import AnalysisOptionSet
from crosshair.options import DEFAULT_OPTIONS
import pb2
opts = DEFAULT_OPTIONS.overlay(AnalysisOptionSet(per_condition_timeout=120, report_all=True, max_uninteresting_iterations=10**9))
t = time.time()
msgs = list(run_checkables(analyze_function(pb2.same, opts)))
for m in msgs:
    print(m.state, m.message[:100], m.line)
print('queries', _n, 'wall', time.time() - t)
