from typing import Union, Optional
from bare_script.runtime import evaluate_expression, BareScriptRuntimeError
from bare_script.parser import parse_expression

_E_DIV = parse_expression('a / b')
_E_MOD = parse_expression('a % b')
_E_POW = parse_expression('a ** b')

def div_contained(a: Union[int, float, str, None, bool], b: Union[int, float, str, None, bool]) -> bool:
    """
    post: True
    raises: BareScriptRuntimeError
    """
    evaluate_expression(_E_DIV, {'globals': {'a': a, 'b': b}})
    return True

def mod_contained(a: int, b: int) -> bool:
    """
    post: True
    raises: BareScriptRuntimeError
    """
    evaluate_expression(_E_MOD, {'globals': {'a': a, 'b': b}})
    return True

def pow_contained(a: int, b: int) -> bool:
    """
    pre: -4 <= a <= 4 and -4 <= b <= 4
    post: True
    raises: BareScriptRuntimeError
    """
    evaluate_expression(_E_POW, {'globals': {'a': a, 'b': b}})
    return True
