from typing import Union, Optional, List, Dict
from bare_script.value import value_compare
import math

Scalar = Union[None, bool, int, float, str]
V1 = Union[None, bool, int, float, str, List[Scalar]]

def _nn(v):
    if isinstance(v, float):
        return not math.isnan(v)
    if isinstance(v, list):
        return all(_nn(x) for x in v)
    return True

def antisym(a: V1, b: V1) -> bool:
    """
    pre: _nn(a) and _nn(b)
    post: _
    """
    return value_compare(a, b) == -value_compare(b, a)

def trans(a: V1, b: V1, c: V1) -> bool:
    """
    pre: _nn(a) and _nn(b) and _nn(c)
    post: _
    """
    if value_compare(a, b) <= 0 and value_compare(b, c) <= 0:
        return value_compare(a, c) <= 0
    return True

def intfloat(a: int, b: V1) -> bool:
    """
    pre: _nn(b) and abs(a) < 10**15
    post: _
    """
    return value_compare(a, b) == value_compare(float(a), b)
