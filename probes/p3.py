from typing import Union, Optional, List, Dict, Tuple
from bare_script.value import value_compare
import math

Scalar = Union[None, bool, int, str]

def antisym_s(a: Scalar, b: Scalar) -> bool:
    """
    post: _
    """
    return value_compare(a, b) == -value_compare(b, a)

def trans_s(a: Scalar, b: Scalar, c: Scalar) -> bool:
    """
    post: _
    """
    if value_compare(a, b) <= 0 and value_compare(b, c) <= 0:
        return value_compare(a, c) <= 0
    return True

def antisym_l(a: Tuple[Scalar, Scalar], b: Tuple[Scalar, Scalar], la: int, lb: int) -> bool:
    """
    pre: 0 <= la <= 2 and 0 <= lb <= 2
    post: _
    """
    x = list(a)[:la]
    y = list(b)[:lb]
    return value_compare(x, y) == -value_compare(y, x)
