from bare_script.parser import parse_expression, BareScriptParserError

def total(s: str) -> bool:
    """
    pre: len(s) <= 3
    post: True
    raises: BareScriptParserError
    """
    parse_expression(s)
    return True

def no_plus_root(s: str) -> bool:
    """
    pre: len(s) == 5
    post: _
    raises: BareScriptParserError
    """
    e = parse_expression(s)
    return not ('binary' in e and e['binary']['op'] == '+' and 'binary' in e['binary']['right'])
