from typing import List
from bare_script import parse_script, execute_script
from bare_script.runtime import BareScriptRuntimeError

SRC = '''\
i = 0
while cc():
    tt(1)
    if cc():
        tt(2)
        continue
    endif
    tt(3)
endwhile
tt(4)
'''
_SCRIPT = parse_script(SRC)

def ref(bits, trace):
    # structured reading
    k = [0]
    def cc():
        if k[0] >= len(bits): raise IndexError
        v = bits[k[0]]; k[0] += 1; return v
    while cc():
        trace.append(1)
        if cc():
            trace.append(2)
            continue
        trace.append(3)
    trace.append(4)

def same(bits: List[bool]) -> bool:
    """
    pre: len(bits) <= 6
    post: _
    """
    k = [0]
    tr = []
    class Out(Exception): pass
    def c(args, options):
        if k[0] >= len(bits): raise BareScriptRuntimeError('out')
        v = bits[k[0]]; k[0] += 1; return v
    def t(args, options):
        tr.append(int(args[0]))
    try:
        execute_script(_SCRIPT, {'globals': {"cc": c, "tt": t}, 'maxStatements': 200})
        r1 = 'done'
    except BareScriptRuntimeError:
        r1 = 'out'
    tr2 = []
    try:
        ref(bits, tr2); r2 = 'done'
    except IndexError:
        r2 = 'out'
    return tr == tr2 and r1 == r2
