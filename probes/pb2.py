from typing import List
from bare_script import parse_script, execute_script
from bare_script.runtime import BareScriptRuntimeError

SRC = '''\
while cc():
    tt(1)
    if cc():
        tt(2)
        break
    elif cc():
        tt(5)
    else:
        while cc():
            tt(6)
        endwhile
    endif
    tt(3)
endwhile
tt(4)
'''
_SCRIPT = parse_script(SRC)

def ref(c, t):
    while c():
        t(1)
        if c():
            t(2)
            break
        elif c():
            t(5)
        else:
            while c():
                t(6)
        t(3)
    t(4)

def same(bits: List[bool]) -> bool:
    """
    pre: len(bits) <= 8
    post: _
    """
    k = [0]
    tr = []
    def c(args, options):
        if k[0] >= len(bits): raise BareScriptRuntimeError('out')
        v = bits[k[0]]; k[0] += 1; return v
    def t(args, options):
        tr.append(int(args[0]))
    try:
        execute_script(_SCRIPT, {'globals': {"cc": c, "tt": t}, 'maxStatements': 500})
        r1 = 'done'
    except BareScriptRuntimeError:
        r1 = 'out'
    tr2 = []
    k2 = [0]
    def c2():
        if k2[0] >= len(bits): raise IndexError
        v = bits[k2[0]]; k2[0] += 1; return v
    try:
        ref(c2, tr2.append); r2 = 'done'
    except IndexError:
        r2 = 'out'
    return tr == tr2 and r1 == r2
