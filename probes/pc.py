import z3, time
# Scalars ADT
S = z3.Datatype('S')
S.declare('Null'); S.declare('B', ('b', z3.BoolSort())); S.declare('I', ('i', z3.IntSort())); S.declare('F', ('f', z3.RealSort()))
S.declare('Str', ('s', z3.StringSort())); S.declare('Dt', ('t', z3.IntSort())); S.declare('Fn', ('fid', z3.IntSort()))
S = S.create()
def num(v): return z3.If(S.is_I(v), z3.ToReal(S.i(v)), S.f(v))
def isnum(v): return z3.Or(S.is_I(v), S.is_F(v))
def tname(v):
    return z3.If(S.is_Null(v), z3.StringVal('null'), z3.If(S.is_B(v), z3.StringVal('boolean'), z3.If(isnum(v), z3.StringVal('number'),
           z3.If(S.is_Str(v), z3.StringVal('string'), z3.If(S.is_Dt(v), z3.StringVal('datetime'), z3.StringVal('function'))))))
def sgn(lt, eq): return z3.If(lt, -1, z3.If(eq, 0, 1))
def cmp0(l, r):
    return z3.If(S.is_Null(l), z3.If(S.is_Null(r), 0, -1),
           z3.If(S.is_Null(r), 1,
           z3.If(z3.And(S.is_Str(l), S.is_Str(r)), sgn(S.s(l) < S.s(r), S.s(l) == S.s(r)),
           z3.If(z3.And(S.is_B(l), S.is_B(r)), sgn(z3.And(z3.Not(S.b(l)), S.b(r)), S.b(l) == S.b(r)),
           z3.If(z3.And(isnum(l), isnum(r)), sgn(num(l) < num(r), num(l) == num(r)),
           z3.If(z3.And(S.is_Dt(l), S.is_Dt(r)), sgn(S.t(l) < S.t(r), S.t(l) == S.t(r)),
           sgn(tname(l) < tname(r), tname(l) == tname(r))))))))
# lists of len<=2 as (n, e0, e1)
def cmpl(nl, l, nr, r):
    res = sgn(nl < nr, nl == nr)
    for ix in (1, 0):
        c = cmp0(l[ix], r[ix])
        res = z3.If(z3.And(ix < nl, ix < nr), z3.If(c != 0, c, res), res)
    return res
def mk(p):
    return z3.Int(p+'n'), [z3.Const(p+str(i), S) for i in range(2)]
for name, prop in [('antisym',0),('trans',1)]:
    s = z3.Solver()
    (na,a),(nb,b),(nc,c) = mk('a'),mk('b'),mk('c')
    for n in (na,nb,nc): s.add(0 <= n, n <= 2)
    if prop == 0:
        s.add(cmpl(na,a,nb,b) != -cmpl(nb,b,na,a))
    else:
        s.add(cmpl(na,a,nb,b) <= 0, cmpl(nb,b,nc,c) <= 0, cmpl(na,a,nc,c) > 0)
    t=time.time(); r=s.check(); print(name, r, round(time.time()-t,2))
