import z3, time
n, col = z3.Ints('n col')
MAX = 120; PRE = 4
line_left = col - 1 - MAX / 2
line_right = line_left + MAX
# three cases as in BareScriptParserError.__init__ ; track (slice_start, prefix_len, line_column)
long_ = n > MAX
c1 = line_left < 0
c2 = z3.And(z3.Not(c1), line_right > n)
start = z3.If(long_, z3.If(c1, 0, z3.If(c2, n - MAX, line_left)), 0)
plen  = z3.If(long_, z3.If(c1, 0, PRE), 0)
shown_len = z3.If(long_, MAX, n)     # number of source chars shown
lc = z3.If(long_, z3.If(c1, col, z3.If(c2, col - (line_left - PRE - (line_right - n)), col - (line_left - PRE))), col)
caret = lc - 1                       # index of '^' in caret line == index in displayed line
src_index = caret - plen + start     # source char displayed above the caret
s = z3.Solver()
s.add(n >= 0, col >= 1, col <= n)    # column on a real character
s.add(z3.Or(src_index != col - 1, caret - plen < 0, caret - plen >= shown_len))
t = time.time(); print(s.check(), round(time.time() - t, 3)); 
if str(s.check()) == 'sat': print(s.model())
