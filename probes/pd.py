from typing import List, Union, Optional
from bare_script.library import SCRIPT_FUNCTIONS
from bare_script.runtime import evaluate_expression
import copy

def call(name, args):
    args = copy.deepcopy(args)
    expr = {'function': {'name': name, 'args': [{'variable': f'a{i}'} for i in range(len(args))]}}
    g = {f'a{i}': a for i, a in enumerate(args)}
    g[name] = SCRIPT_FUNCTIONS[name]
    r = evaluate_expression(expr, {'globals': g}, None, False)
    return r, args

def array_set_spelling(arr: List[int], idx: int, val: int) -> bool:
    """
    pre: len(arr) <= 3 and -2 <= idx <= 5
    post: _
    """
    r1 = call('arraySet', [arr, idx, val])
    r2 = call('arraySet', [arr, float(idx), val])
    return r1 == r2

def array_get_spelling(arr: List[int], idx: int) -> bool:
    """
    pre: len(arr) <= 3 and -2 <= idx <= 5
    post: _
    """
    r1 = call('arrayGet', [arr, idx])
    r2 = call('arrayGet', [arr, float(idx)])
    return r1 == r2

def array_get_model(arr: List[int], idx: Union[int, float, None, str]) -> bool:
    """
    pre: len(arr) <= 3
    post: _
    """
    r, args = call('arrayGet', [arr, idx])
    ok = isinstance(idx, (int, float)) and not isinstance(idx, bool) and idx == int(idx) and 0 <= idx < len(arr)
    exp = arr[int(idx)] if ok else None
    return r == exp and args[0] == arr

def slice_model(arr: List[int], s: int, e: int) -> bool:
    """
    pre: len(arr) <= 3
    post: _
    """
    r, args = call('arraySlice', [arr, float(s), float(e)])
    ok = 0 <= s <= len(arr) and 0 <= e <= len(arr)
    exp = arr[s:e] if ok else None
    return r == exp and args[0] == arr
