import stub
from typing import List, Union, Optional
from bare_script.library import SCRIPT_FUNCTIONS
from bare_script.runtime import evaluate_expression

def call(name, args):
    expr = {'function': {'name': name, 'args': [{'variable': f'a{i}'} for i in range(len(args))]}}
    g = {f'a{i}': a for i, a in enumerate(args)}
    g[name] = SCRIPT_FUNCTIONS[name]
    r = evaluate_expression(expr, {'globals': g}, None, False)
    return r, args

def array_get_spelling(n: int, x0: int, x1: int, x2: int, idx: int) -> bool:
    """
    pre: 0 <= n <= 3
    post: _
    """
    arr = [x0, x1, x2][:n]
    r1 = call('arrayGet', [list(arr), idx])
    r2 = call('arrayGet', [list(arr), float(idx)])
    ok = 0 <= idx < n
    exp = arr[idx] if ok else None
    return r1 == r2 and r1[0] == exp and r1[1][0] == arr

def slice_model(n: int, x0: int, x1: int, x2: int, s: int, e: int) -> bool:
    """
    pre: 0 <= n <= 3
    post: _
    """
    arr = [x0, x1, x2][:n]
    r, args = call('arraySlice', [list(arr), float(s), float(e)])
    ok = 0 <= s <= len(arr) and 0 <= e <= len(arr)
    exp = arr[s:e] if ok else None
    return r == exp and args[0] == arr
