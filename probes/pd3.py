import stub
from bare_script.library import SCRIPT_FUNCTIONS
from bare_script.runtime import evaluate_expression

def call(name, args):
    expr = {'function': {'name': name, 'args': [{'variable': f'a{i}'} for i in range(len(args))]}}
    g = {f'a{i}': a for i, a in enumerate(args)}
    g[name] = SCRIPT_FUNCTIONS[name]
    r = evaluate_expression(expr, {'globals': g}, None, False)
    return r, args

def array_get_int(x0: int, x1: int, x2: int, idx: int) -> bool:
    """
    post: _
    """
    arr = [x0, x1, x2]
    r1 = call('arrayGet', [list(arr), idx])
    ok = 0 <= idx < 3
    exp = arr[idx] if ok else None
    return r1[0] == exp and r1[1][0] == arr
