import stub
import datetime
from bare_script.library import SCRIPT_FUNCTIONS
from bare_script.runtime import evaluate_expression

def call(name, args):
    expr = {'function': {'name': name, 'args': [{'variable': f'a{i}'} for i in range(len(args))]}}
    g = {f'a{i}': a for i, a in enumerate(args)}
    g[name] = SCRIPT_FUNCTIONS[name]
    return evaluate_expression(expr, {'globals': g}, None, False)

def days_from_civil(y, m, d):
    y -= m <= 2
    era = y // 400
    yoe = y - era * 400
    doy = (153 * (m + (-3 if m > 2 else 9)) + 2) // 5 + d - 1
    doe = yoe * 365 + yoe // 4 - yoe // 100 + doy
    return era * 146097 + doe - 719468

def dn(year: int, month: int, day: int, hour: int, minute: int, second: int, ms: int) -> bool:
    """
    pre: 1900 <= year <= 2100 and -30 <= month <= 40 and -100 <= day <= 100
    pre: -5000 <= hour <= 5000 and -5000 <= minute <= 5000 and -5000 <= second <= 5000 and -5000 <= ms <= 5000
    post: _
    """
    r = call('datetimeNew', [year, month, day, hour, minute, second, ms])
    # reference: total ms since epoch by pure integer arithmetic
    y = year + (month - 1) // 12
    m = (month - 1) % 12 + 1
    total = (days_from_civil(y, m, 1) + day - 1) * 86400000 + hour * 3600000 + minute * 60000 + second * 1000 + ms
    got = (days_from_civil(r.year, r.month, r.day)) * 86400000 + r.hour * 3600000 + r.minute * 60000 + r.second * 1000 + r.microsecond // 1000
    return got == total
