import inspect, bare_script.library as L
src = inspect.getsource(L._datetime_new).replace("extra_hours = minute // 60", "extra_hours = (minute + 1) // 60")
ns = L.__dict__
exec(src, ns)
L.SCRIPT_FUNCTIONS['datetimeNew'] = ns['_datetime_new']
from pe import *

def dn2(year: int, month: int, day: int, hour: int, minute: int, second: int, ms: int) -> bool:
    """
    pre: 1900 <= year <= 2100 and -30 <= month <= 40 and -100 <= day <= 100
    pre: -5000 <= hour <= 5000 and -5000 <= minute <= 5000 and -5000 <= second <= 5000 and -5000 <= ms <= 5000
    post: _
    """
    return dn.__wrapped__(year, month, day, hour, minute, second, ms) if hasattr(dn, '__wrapped__') else dn(year, month, day, hour, minute, second, ms)
