import time, re, json
import z3
from bare_script import value as V

# --- tiny re -> z3 translator (subset), patterns read from the live module
import re._parser as sp
def to_z3(pat):
    tree = sp.parse(pat.pattern, pat.flags)
    return seq(list(tree))
def seq(items):
    parts = [node(op, av) for op, av in items]
    if not parts: return z3.Re("")
    r = parts[0]
    for p in parts[1:]: r = z3.Concat(r, p)
    return r
ANY = z3.Range(chr(0), chr(0x2FFFF)) if False else z3.AllChar(z3.ReSort(z3.StringSort()))
def cls(items):
    rs = []
    neg = False
    for op, av in items:
        if op is sp.NEGATE: neg = True
        elif op is sp.LITERAL: rs.append(z3.Re(chr(av)))
        elif op is sp.RANGE: rs.append(z3.Range(chr(av[0]), chr(av[1])))
        elif op is sp.CATEGORY:
            if av is sp.CATEGORY_DIGIT: rs.append(z3.Range('0','9'))
            elif av is sp.CATEGORY_SPACE: rs.append(z3.Union(*[z3.Re(c) for c in ' \t\n\r\f\v']))
            else: raise NotImplementedError(av)
        else: raise NotImplementedError(op)
    r = rs[0] if len(rs)==1 else z3.Union(*rs)
    if neg: r = z3.Intersect(ANY, z3.Complement(r))
    return r
def node(op, av):
    if op is sp.LITERAL: return z3.Re(chr(av))
    if op is sp.IN: return cls(av)
    if op is sp.ANY: return ANY
    if op is sp.MAX_REPEAT or op is sp.MIN_REPEAT:
        lo, hi, sub = av
        r = seq(list(sub))
        if hi is sp.MAXREPEAT:
            return z3.Concat(z3.Loop(r, lo, lo), z3.Star(r)) if lo else z3.Star(r)
        return z3.Loop(r, lo, hi)
    if op is sp.SUBPATTERN: return seq(list(av[3]))
    if op is sp.BRANCH: return z3.Union(*[seq(list(b)) for b in av[1]])
    if op is sp.AT: return ('AT', av)
    raise NotImplementedError(op)

print(V._R_VALUE_JSON_NUMBER_CLEANUP2.pattern, V._R_VALUE_JSON_NUMBER_CLEANUP.pattern)
# cleanup2: \.0*([,}\]])  (unanchored) ; does it fire inside a JSON string literal?
c2 = to_z3(V._R_VALUE_JSON_NUMBER_CLEANUP2)
S = z3.String('T')
# JSON text for an array of strings of printable ASCII w/o quote/backslash, as produced by the encoder: ["...","..."]
strchar = z3.Intersect(z3.Range(' ', '~'), z3.Complement(z3.Union(z3.Re('"'), z3.Re('\\'))))
lit = z3.Concat(z3.Re('"'), z3.Star(strchar), z3.Re('"'))
arr = z3.Concat(z3.Re('['), lit, z3.Star(z3.Concat(z3.Re(','), lit)), z3.Re(']'))
inside = z3.Concat(z3.Re('['), z3.Star(z3.Concat(lit, z3.Re(','))), z3.Re('"'), z3.Star(strchar))  # prefix ending inside a literal
fires_inside = z3.Concat(inside, c2, z3.Full(z3.ReSort(z3.StringSort())))
s = z3.Solver()
s.add(z3.InRe(S, arr), z3.InRe(S, fires_inside), z3.Length(S) <= 12)
t=time.time(); r = s.check(); print(r, time.time()-t)
if str(r)=='sat':
    T = s.model()[S].as_string(); print(repr(T))
    v = json.loads(T); out = V.value_json(v); print(out, json.loads(out) == v)
