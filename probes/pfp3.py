import z3, time
n, e1, e2, e3 = z3.Reals('n e1 e2 e3')
u = z3.Q(1, 2**53)
s = z3.Solver()
N = 2**40
s.add(n >= 0, n <= N)   # symmetric case n<0 analogous
for e in (e1, e2, e3): s.add(e >= -u, e <= u)
q = (n / 1000) * (1 + e1)          # fl(us/1e6), us = 1000 n exact
x = q * 1000 * (1 + e2)            # fl(q*1000)
y = (x + z3.Q(1,2)) * (1 + e3)     # fl(x + 0.5)   (x*1 is exact)
# int(y) truncation == n  <=>  n <= y < n+1   (n integer; treat n as real: over-approximation is fine)
s.add(z3.Or(y < n, y >= n + 1))
t = time.time(); r = s.check(); print(r, round(time.time() - t, 2))
if str(r) == 'sat': print(s.model())
