import json
from bare_script.value import value_json, value_string
from bare_script.library import SCRIPT_FUNCTIONS

def rt(s: str) -> bool:
    """
    pre: len(s) <= 3
    post: _
    """
    return json.loads(value_json([s])) == [s]

def rt_key(s: str, n: int) -> bool:
    """
    pre: len(s) <= 3
    post: _
    """
    return json.loads(value_json({s: n})) == {s: n}
