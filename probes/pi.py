from typing import List
from bare_script import parse_script, execute_script
from bare_script.runtime import BareScriptRuntimeError

SRC = '''\
function ff(n):
    i = 0
    while i < n:
        tt(i)
        i = i + 1
    endwhile
    return i
endfunction
tt(100)
ff(2)
arraySort(arrayNew(3,1,2), gg)
tt(200)
'''
SRC0 = '''\
function gg(a, b):
    tt(a)
    return systemCompare(a, b)
endfunction
'''
_SCRIPT = parse_script(SRC0 + SRC)

def run(limit):
    tr = []
    def t(args, options):
        tr.append((args[0], options['statementCount']))
    opts = {'globals': {"tt": t}, 'maxStatements': limit}
    try:
        execute_script(_SCRIPT, opts)
        r = 'done'
    except BareScriptRuntimeError as e:
        r = str(e)
    return r, tr, opts['statementCount']

_FULL = run(0)

def budget(limit: int) -> bool:
    """
    pre: limit >= 1
    post: _
    """
    r, tr, n = run(limit)
    N = _FULL[2]
    if limit >= N:
        return (r, tr, n) == _FULL
    # aborted exactly when statement limit+1 would start; effects are a prefix
    return r.startswith('Exceeded maximum script statements') and n == limit + 1 and tr == _FULL[1][:len(tr)] and all(c <= limit for _, c in tr)
