import stub
from typing import List
from bare_script import parse_script, execute_script
from bare_script.bare import _fetch_include, _FETCH_INCLUDE_PREFIX

_SCRIPT = parse_script("include <diff.bare>\n")
_G = {}
execute_script(_SCRIPT, {'globals': _G, 'fetchFn': _fetch_include, 'systemPrefix': _FETCH_INCLUDE_PREFIX})
_CALL = parse_script("return diffLines(L, R)")

def diff2(l0: str, l1: str, r0: str, r1: str) -> bool:
    """
    pre: len(l0) <= 1 and len(l1) <= 1 and len(r0) <= 1 and len(r1) <= 1
    pre: chr(10) not in l0 + l1 + r0 + r1 and chr(13) not in l0 + l1 + r0 + r1
    post: _
    """
    L = [l0, l1]; R = [r0, r1]
    g = dict(_G); g['L'] = list(L); g['R'] = list(R)
    d = execute_script(_CALL, {'globals': g, 'maxStatements': 5000})
    left = []; right = []
    for blk in d:
        if blk['type'] in ('Identical', 'Remove'): left.extend(blk['lines'])
        if blk['type'] in ('Identical', 'Add'): right.extend(blk['lines'])
        if not blk['lines']: return False
    return left == L and right == R
