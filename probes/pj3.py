import stub
from typing import List
from bare_script import parse_script, execute_script
import bare_script, os
_SRC = open(os.path.join(os.path.dirname(bare_script.__file__), 'include', 'diff.bare')).read().replace('arrayPush(objectdiffs,', 'arrayPush(diffs,')
def _split(args, options):
    return [args[1]]
_G = {'regexSplit': _split}
execute_script(parse_script(_SRC), {'globals': _G})
_CALL = parse_script("return diffLines(L, R)")

def diff3(l0: str, l1: str, l2: str, r0: str, r1: str, r2: str, nl: int, nr: int) -> bool:
    """
    pre: 0 <= nl <= 3 and 0 <= nr <= 3
    post: _
    """
    L = [l0, l1, l2][:nl]; R = [r0, r1, r2][:nr]
    g = dict(_G); g['L'] = list(L); g['R'] = list(R)
    d = execute_script(_CALL, {'globals': g, 'maxStatements': 5000})
    left = []; right = []
    for blk in d:
        if blk['type'] in ('Identical', 'Remove'): left.extend(blk['lines'])
        if blk['type'] in ('Identical', 'Add'): right.extend(blk['lines'])
        if not blk['lines']: return False
    return left == L and right == R
