from bare_script.parser import BareScriptParserError

def caret(n: int, col: int) -> bool:
    """
    pre: 1 <= col <= n and n <= 400
    post: _
    """
    line = 'a' * (col - 1) + 'X' + 'a' * (n - col)
    e = BareScriptParserError('Syntax error', line, col, 7)
    parts = str(e).split(chr(10))
    shown = parts[1]
    car = parts[2]
    k = len(car) - 1
    return car[k] == '^' and k < len(shown) and shown[k] == 'X' and e.column_number == col and e.line == line
