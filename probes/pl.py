from typing import List
from bare_script.parser import parse_script, BareScriptParserError
from bare_script.model import lint_script

KINDS = ['if cc():', 'elif cc():', 'else:', 'endif', 'while cc():', 'endwhile', 'for vv in aa():', 'endfor', 'break', 'continue', 'tt(1)']

def wf(statements):
    defs = {}
    uses = set()
    for s in statements:
        if 'label' in s:
            defs[s['label']] = defs.get(s['label'], 0) + 1
        elif 'jump' in s:
            uses.add(s['jump']['label'])
    return all(v == 1 for v in defs.values()) and uses == set(defs)

def labels_ok(k0: int, k1: int, k2: int, k3: int, k4: int, n: int) -> bool:
    """
    pre: 0 <= n <= 5
    pre: all(0 <= k < 11 for k in (k0, k1, k2, k3, k4))
    post: _
    """
    ks = [k0, k1, k2, k3, k4][:n]
    text = chr(10).join(KINDS[k] for k in ks)
    try:
        m = parse_script(text)
    except BareScriptParserError:
        return True
    return wf(m['statements'])
