from bare_script.options import url_file_relative
import re

def rel_url(d: str, f: str, u: str) -> bool:
    """
    pre: len(d) <= 2 and len(f) <= 2 and len(u) <= 3
    pre: '/' not in f and not u.startswith('/') and not re.match('^[a-z]+:', u)
    post: _
    """
    base = 'http://h/' + d + '/' + f
    return url_file_relative(base, u) == 'http://h/' + d + '/' + u

def rel_path(d: str, f: str, u: str) -> bool:
    """
    pre: len(d) <= 2 and len(f) <= 2 and 1 <= len(u) <= 3
    pre: '/' not in f and '/' not in d and '/' not in u and '.' not in u and ':' not in u
    post: _
    """
    base = '/r/' + d + '/' + f
    return url_file_relative(base, u) == '/r/' + d + '/' + u
