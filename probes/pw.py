import z3, time, re
import re._parser as sp
from bare_script import parser as P
ANY = z3.AllChar(z3.ReSort(z3.StringSort()))
NL = z3.Re('\n')
DOT = z3.Intersect(ANY, z3.Complement(NL))
WS = z3.Union(*[z3.Re(c) for c in ' \t\n\r\f\v'])
WORD = z3.Union(z3.Range('a','z'), z3.Range('A','Z'), z3.Range('0','9'), z3.Re('_'))
def seq(items):
    parts = [x for x in (node(op, av) for op, av in items) if x is not None]
    if not parts: return z3.Re("")
    r = parts[0]
    for p in parts[1:]: r = z3.Concat(r, p)
    return r
def cls(items):
    rs = []; neg = False
    for op, av in items:
        if op is sp.NEGATE: neg = True
        elif op is sp.LITERAL: rs.append(z3.Re(chr(av)))
        elif op is sp.RANGE: rs.append(z3.Range(chr(av[0]), chr(av[1])))
        elif op is sp.CATEGORY:
            rs.append({sp.CATEGORY_DIGIT: z3.Range('0','9'), sp.CATEGORY_SPACE: WS, sp.CATEGORY_WORD: WORD}[av])
        else: raise NotImplementedError(op)
    r = rs[0] if len(rs) == 1 else z3.Union(*rs)
    return z3.Intersect(ANY, z3.Complement(r)) if neg else r
def node(op, av):
    if op is sp.LITERAL: return z3.Re(chr(av))
    if op is sp.NOT_LITERAL: return z3.Intersect(ANY, z3.Complement(z3.Re(chr(av))))
    if op is sp.IN: return cls(av)
    if op is sp.ANY: return DOT
    if op in (sp.MAX_REPEAT, sp.MIN_REPEAT):
        lo, hi, sub = av; r = seq(list(sub))
        if hi is sp.MAXREPEAT:
            return z3.Concat(z3.Loop(r, lo, lo), z3.Star(r)) if lo else z3.Star(r)
        return z3.Loop(r, lo, hi)
    if op is sp.SUBPATTERN: return seq(list(av[3]))
    if op is sp.BRANCH: return z3.Union(*[seq(list(b)) for b in av[1]])
    if op is sp.AT: return None   # ^ ... $ anchors of fully anchored line patterns
    raise NotImplementedError(op)
def lang(pat): return seq(list(sp.parse(pat.pattern, pat.flags)))

HWS = z3.Star(z3.Union(z3.Re(' '), z3.Re('\t')))
tot = 0
for name in sorted(n for n in dir(P) if n.startswith('_R_SCRIPT_') and n not in ('_R_SCRIPT_LINE_SPLIT', '_R_SCRIPT_CONTINUATION', '_R_SCRIPT_FUNCTION_ARG_SPLIT')):
    pat = getattr(P, name)
    if not (pat.pattern.startswith('^') and pat.pattern.endswith('$')): print(name, 'not fully anchored'); continue
    L = lang(pat)
    s_, w1, w2 = z3.String('s'), z3.String('w1'), z3.String('w2')
    sol = z3.Solver(); sol.set('timeout', 30000)
    sol.add(z3.InRe(w1, HWS), z3.InRe(w2, HWS), z3.Not(z3.Contains(s_, '\n')), z3.Length(s_) <= 30)
    sol.add(z3.InRe(s_, L) != z3.InRe(z3.Concat(w1, s_, w2), L))
    t = time.time(); r = sol.check(); dt = time.time() - t; tot += dt
    print(f'{name:28s} {str(r):8s} {dt:5.2f}s', (repr(sol.model()[s_].as_string()), repr(sol.model()[w1].as_string()), repr(sol.model()[w2].as_string())) if str(r) == 'sat' else '')
print('total', round(tot, 1))
