import z3, time
I = z3.Int
def fdiv(a, b):  # python floor div for positive constant b
    return a / b   # z3 Int div is floor for positive divisor
def mdays(y, m):
    leap = z3.And(y % 4 == 0, z3.Or(y % 100 != 0, y % 400 == 0))
    return z3.If(m == 2, z3.If(leap, 29, 28), z3.If(z3.Or(m == 4, m == 6, m == 9, m == 11), 30, 31))
def dfc(y, m, d):
    y2 = z3.If(m <= 2, y - 1, y)
    era = y2 / 400
    yoe = y2 - era * 400
    mp = z3.If(m > 2, m - 3, m + 9)
    doy = (153 * mp + 2) / 5 + d - 1
    doe = yoe * 365 + yoe / 4 - yoe / 100 + doy
    return era * 146097 + doe - 719468

# (1) straight-line carry chain as in _datetime_new (hand SSA of the source)
year, month, day, hour, minute, second, ms = z3.Ints('year month day hour minute second ms')
def carry(v, base, nxt):
    cond = z3.Or(v < 0, v >= base)
    extra = v / base
    return z3.If(cond, v - extra * base, v), z3.If(cond, nxt + extra, nxt)
ms1, second1 = carry(ms, 1000, second)
second2, minute1 = carry(second1, 60, minute)
minute2, hour1 = carry(minute1, 60, hour)
hour2, day1 = carry(hour1, 24, day)
condm = z3.Or(month < 1, month > 12)
ey = (month - 1) / 12
month1 = z3.If(condm, month - ey * 12, month); year1 = z3.If(condm, year + ey, year)
s = z3.Solver()
total_in = ((day * 24 + hour) * 60 + minute) * 60000 + second * 1000 + ms
total_out = ((day1 * 24 + hour2) * 60 + minute2) * 60000 + second2 * 1000 + ms1
s.add(z3.Not(z3.And(total_in == total_out, 0 <= ms1, ms1 < 1000, 0 <= second2, second2 < 60, 0 <= minute2, minute2 < 60, 0 <= hour2, hour2 < 24,
                    1 <= month1, month1 <= 12, year1 * 12 + month1 == year * 12 + month)))
t = time.time(); print('carry chain', s.check(), round(time.time() - t, 2))

# (2) inductive step of the "day > month_days" loop: invariant K = dfc(y, m, 1) + d preserved
y, m, d = z3.Ints('y m d')
for mc in range(1, 13):
    s = z3.Solver()
    s.add(m == mc, y >= 1, y <= 9999, d > mdays(y, m))
    d2 = d - mdays(y, m)
    y2 = z3.If(m != 12, y, y + 1); m2 = z3.If(m != 12, m + 1, 1)
    s.add(dfc(y, m, 1) + d != dfc(y2, m2, 1) + d2)
    t = time.time(); r = s.check(); print('fwd step m=%d' % mc, r, round(time.time() - t, 2))
for mc in range(1, 13):
    s = z3.Solver()
    s.add(m == mc, y >= 1, y <= 9999, d < 1)
    y2 = z3.If(m != 1, y, y - 1); m2 = z3.If(m != 1, m - 1, 12)
    d2 = d + mdays(y2, m2)
    s.add(dfc(y, m, 1) + d != dfc(y2, m2, 1) + d2)
    t = time.time(); r = s.check(); print('bwd step m=%d' % mc, r, round(time.time() - t, 2))
