import bare_script.value as _v
def _init(self, arg_name, arg_value, return_value=None):
    Exception.__init__(self, 'args error')
    self.return_value = return_value
_v.ValueArgsError.__init__ = _init
