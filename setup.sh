#!/bin/sh
# Builds the overlay venv /verif/.venv offline: python from /venv, site-packages of /venv (bare_script is the
# editable install of /repo/src, schema-markdown) visible through a .pth, crosshair-tool/z3/cvc5 from the wheelhouse.
set -e
cd "$(dirname "$0")"
if [ -x .venv/bin/python ] && .venv/bin/python -c "import crosshair, z3, bare_script, schema_markdown" 2>/dev/null; then
  echo "setup: .venv already usable"; exit 0
fi
rm -rf .venv
/venv/bin/python -m venv .venv
SP=$(.venv/bin/python -c "import sysconfig; print(sysconfig.get_paths()['purelib'])")
printf '%s\n' "import site; site.addsitedir('/venv/lib/python3.12/site-packages')" > "$SP/zz_verif_overlay.pth"
PIP_NO_INDEX=1 .venv/bin/pip install -q --no-index --find-links /opt/veriftools/wheels crosshair-tool z3-solver cvc5
.venv/bin/python -c "import crosshair, z3, cvc5, bare_script, schema_markdown; print('setup ok', crosshair.__version__, z3.get_version_string(), bare_script.__file__)"
