#!/usr/bin/env python3
"""
Confirm a sub-agent's seeded change in a scratch worktree of /repo's HEAD and file it under /verif/seeded/<ID>-<X>/.
  usage: confirm_mutant.py /tmp/mut/out-C09/A
Checks: patch applies; suite keeps its 410 passes (same 8 environmental failures); demo exits 0 without and 1 with the change.
"""
import json, os, shutil, subprocess, sys, tempfile

def sh(cmd, cwd=None, env=None):
    return subprocess.run(cmd, shell=True, cwd=cwd, env=env, capture_output=True, text=True)

def suite(wt):
    r = sh(f'PYTHONPATH={wt}/src /venv/bin/python -m pytest -q -p no:cacheprovider 2>&1 | tail -12', cwd=wt)
    lines = r.stdout.strip().splitlines()
    failed = sorted(l.split(' - ')[0] for l in lines if l.startswith('FAILED'))
    return lines[-1] if lines else '', failed

def main(src, rename=None):
    meta = json.load(open(os.path.join(src, 'meta.json')))
    pid, var = meta['property'], meta['variant']
    if rename:
        var = rename
        meta['variant'] = rename
        meta['round'] = 2
    wt = tempfile.mkdtemp(prefix='wt-confirm-', dir='/tmp')
    os.rmdir(wt)
    assert sh(f'git -C /repo worktree add --detach {wt} HEAD').returncode == 0
    try:
        base_summary, base_failed = suite(wt)
        demo = os.path.join(src, 'demo.py')
        env = dict(os.environ, PYTHONPATH=f'{wt}/src')
        d0 = subprocess.run(['/venv/bin/python', demo], env=env, capture_output=True, text=True, cwd=wt)
        ap = sh(f'git apply {src}/patch.diff', cwd=wt)
        how = 'git apply'
        if ap.returncode != 0:
            ap = sh(f'git apply --3way {src}/patch.diff', cwd=wt)
            how = 'git apply --3way'
        if ap.returncode != 0:
            print(f'{pid}-{var}: PATCH DOES NOT APPLY to current HEAD: {ap.stderr[:300]}')
            return 1
        mut_summary, mut_failed = suite(wt)
        d1 = subprocess.run(['/venv/bin/python', demo], env=env, capture_output=True, text=True, cwd=wt)
        diff = sh('git diff HEAD', cwd=wt).stdout
        ok = (d0.returncode == 0 and d1.returncode == 1 and mut_failed == base_failed and '410 passed' in mut_summary)
        print(f'{pid}-{var}: apply={how} suite_base="{base_summary}" suite_mut="{mut_summary}" demo_pristine={d0.returncode} demo_mut={d1.returncode} -> {"CONFIRMED" if ok else "REJECTED"}')
        if not ok:
            print(d0.stdout[-300:], d0.stderr[-300:], d1.stdout[-300:], d1.stderr[-300:])
            return 1
        dst = f'/verif/seeded/{pid}-{var}'
        os.makedirs(dst, exist_ok=True)
        open(os.path.join(dst, 'patch.diff'), 'w').write(diff)
        shutil.copy(demo, os.path.join(dst, 'demo.py'))
        meta['confirmed'] = {'base': sh('git -C /repo rev-parse --short HEAD').stdout.strip(), 'applied_with': how,
                             'suite_with_change': mut_summary, 'demo_exit_pristine': d0.returncode, 'demo_exit_changed': d1.returncode,
                             'demo_output_changed': (d1.stdout + d1.stderr)[-400:],
                             'ran': 'tools/confirm_mutant.py in a scratch worktree of /repo HEAD (removed afterwards)'}
        meta.setdefault('detected_by', 'pending')
        json.dump(meta, open(os.path.join(dst, 'meta.json'), 'w'), indent=1)
        return 0
    finally:
        sh(f'git -C /repo worktree remove --force {wt}')

if __name__ == '__main__':
    sys.exit(main(sys.argv[1].rstrip('/'), sys.argv[2] if len(sys.argv) > 2 else None))
