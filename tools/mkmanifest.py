#!/usr/bin/env python3
"""Regenerates /verif/MANIFEST.json from the table below (kept valid at all times)."""
import json, os
ROOT = os.path.dirname(os.path.dirname(os.path.abspath(__file__)))

CHECKS = {
 'C02': dict(level='exploration', design='DESIGN.md §5 C02',
   technique='z3 lemma over the live BINARY_REORDER table with symbolic operators; CrossHair-driven exhaustive enumeration of operator chains / operand forms / token soup parsed by the real parse_expression against a precedence-climbing reference and an LL(1) recogniser',
   text='z3 decides, with both operators symbolic, that the live precedence table relates op1 to op2 exactly when op2 binds looser (any wrong entry is rendered to a two-operator chain and replayed). CrossHair then enumerates every operator chain up to the length bound, with each of eight operand forms at each position, with and without blanks, and every token-soup sequence up to three tokens; the real parser sees concrete text on each path and must produce the tree the precedence levels dictate or reject exactly what the grammar rejects, with BareScriptParserError. Apart from the table lemma this is solver-driven enumeration of a finite set, stated as such.',
   note='Trusted: the reference parsers in vf/props/c02.py, z3, CrossHair. Symbolic text cannot reach the regex-driven parser: depth-8 random expressions and arbitrary token strings are outside the claim.'),
 'C19': dict(level='exploration', design='DESIGN.md §5 C19',
   technique='CrossHair symbolic execution of the data library functions through the real call wrapper on small symbolic tables (measure cells symbolic ints or pool values, key cells chosen by symbolic indices from a mixed-type pool), compared with a relational reference in plain Python',
   text='Per data function and table size CrossHair explores tables whose key cells range over a pool that mixes 1, 1.0, "1", true, null and strings with JSON punctuation and whose measure cells are symbolic: dataAggregate (six functions, partition by value equality, non-null measures, exact rationals), dataSort (ordered by keys/directions, stable), dataTop (first n per category, float and int counts), dataFilter, dataCalculatedField, dataJoin (pairs by key value, left fields never overwritten, right names unique under aa/aa2/aa3 collisions) and the CSV typing round trip incl. date-like invalid text. Conditions that do not exhaust their paths within the budget are reported inconclusive (bug-finding only).',
   note='Trusted: CrossHair/z3, the relational reference in vf/props/c19.py, C11 for value equality. Bounds: <= 2 (quick) / 3 (thorough) rows; 12x5 tables are outside.'),
 'C18': dict(level='exploration', design='DESIGN.md §5 C18',
   technique='CrossHair symbolic execution of generator-enumerated jump-level models with symbolic condition outcomes: a run raises Unknown jump label only for labels lint warned about; concrete sweeps for purity, static exactness of label/redefinition warnings and edit-justification',
   text='For batches of jump-level models (user labels, duplicate labels, dangling jumps, one and two functions) CrossHair explores every outcome sequence of the conditional jumps and checks that a run can raise "Unknown jump label x" only if lint_script issued an unknown-label warning for x. The remaining clauses have no input to range over and are evaluated concretely on every enumerated model (stated as such): lint never raises, leaves the model unchanged and is deterministic (also on parsed structured programs and every shipped .bare file); label/redefinition warnings equal an independent static computation; each unused-variable/argument/label and pointless-statement warning is justified by applying the suggested edit and comparing runs.',
   note='Trusted: CrossHair/z3 and the interpreter (C08). Most of C18 is static; only the unknown-label soundness clause is a solver verdict.'),
 'C17': dict(level='exploration', design='DESIGN.md §5 C17',
   technique='CrossHair symbolic execution of the real include machinery over virtual file systems, differential against the reference machine with an independently written resolver; symbolic base kind, system prefix and per-file state; url_file_relative on symbolic strings',
   text='Per include-tree program (chain with sub-directory, ../ and return inside an include; adjacent includes merged into one statement across directories; include inside a function; system, absolute-URL and absolute-path includes) the real interpreter is run with fetchFn/urlFn/systemPrefix set up as the CLI does and compared with the reference machine: sequence of fetched URLs, effect trace, final globals, exception type and message, for every base kind and every choice of a missing / throwing / syntactically broken file. url_file_relative itself is compared with the resolver specification on symbolic path fragments for URL bases.',
   note='Trusted: vf/hlib/refvm.py + spec_resolve, CrossHair/z3. pathlib normalisation of absolute references is outside the claim.'),
 'C04': dict(level='exploration', design='DESIGN.md §5 C04',
   technique='CrossHair symbolic execution of execute_script/_script_function: symbolic argument lists (symbolic length), host globals chosen by symbolic indices, symbolic presence flags for colliding names; oracle = the documented calling and scoping convention',
   text='Per parameter layout (0-3 parameters, with and without a trailing "...") the real _script_function is called - directly, through systemPartial and through a script call - with an argument list whose length and values are symbolic, and compared with positional binding / missing->null / surplus ignored / rest collected, also when the host supplies globals named like the parameters. Per scoping program (one parameter, zero parameters, nested calls, arraySort callback) assignments inside functions must stay local, reads must see locals then globals, top-level assignments must write the caller-supplied dict; a collision condition covers library injection, script functions replacing library/host functions and bound names beating built-ins.',
   note='Trusted: CrossHair/z3 list and dict models. Bounds: <= 3 parameters, <= 5 arguments, integer values.'),
 'C03': dict(level='exploration', design='DESIGN.md §5 C03',
   technique='CrossHair symbolic execution of evaluate_expression: typed symbolic operands per operand-kind pair against a written specification of the operator semantics; effect-logging leaves with symbolic values for order/once/laziness; alias table differential',
   text='Per ordered pair of operand kinds (unbounded ints, short strings, null, bools, and floats/datetimes/arrays/objects/functions/regexes chosen from pools by symbolic indices) all 14 binary and both unary operators are evaluated by the real evaluator and compared with the typed operator semantics written from the language description; per expression shape with effect-logging host calls as leaves the evaluation order, at-most-once evaluation and laziness of &&, || and if() are compared with a reference evaluation for all leaf values; every documented spreadsheet-style built-in is compared with the library function it aliases on symbolic arguments and must be undefined with built-ins off.',
   note='Trusted: specification vf/hlib/c03spec.py, C11 order spec, CrossHair/z3. Bool operands of arithmetic operators are outside the claim (implementation treats them as 0/1).'),
 'C06': dict(level='exploration', design='DESIGN.md §5 C06',
   technique='z3 lemma over the real AST of BareScriptParserError.__init__ (abstract line slices, every line length and column) + CrossHair-chosen faulty statements, end-of-input shapes and token soup parsed by the real parser',
   text='z3 decides for every line length and every column 1..n+1 that the formatted message displays line[column-1] above the caret in all three elision cases (and puts the caret one past the text for a fault at end of line). CrossHair chooses statement kind, fault, indentation, trailing blanks, prepended comment/blank/statement lines, start line, long-line padding and continuation layout; each path parses a concrete text and checks line number, line text, that the column points at the offending character and that the caret is under it; end-of-input shapes (open blocks, pending continuation) must be rejected and 3-line token soup may only raise BareScriptParserError with a usable position.',
   note='Partly applicable: symbolic source text cannot reach the regex-driven parser, so arbitrary texts and faults at every column of arbitrary lines are outside the claim. Trusted: z3 LIA, vf.symint, CrossHair.'),
 'C16': dict(level='exploration', design='DESIGN.md §5 C16',
   technique='symbolic execution of the real AST of datetimeNew into z3 integer arithmetic (vf.symint): carry chain for all integers, one inductive step per day-adjust loop from an arbitrary state, uniqueness of the civil representation; CrossHair differential against ordinal arithmetic',
   text='z3 decides on the current source of datetimeNew that the ms/s/min/h/month carry chain equals floor-division normal form for ALL integers, that each day-adjust loop preserves the proleptic-Gregorian day number, keeps 1<=month<=12, makes progress and exits with 1<=day<=month length from ANY state (so roll-over is right for every iteration count), and that the day number determines the date. CrossHair compares datetimeNew and the seven getters with ordinal arithmetic over one symbolic component at a time and checks (d + n ms) - d == n over a solver-indexed pool. The any-time-zone clause is not applicable to a solver (C library tz state); 8 zones are replayed concretely as a by-product.',
   note='Partly applicable. Trusted: z3 LIA, the Gregorian month-length axiom and days_from_civil (validated against calendar/date each run), CPython datetime, CrossHair.'),
 'C11': dict(level='exploration', design='DESIGN.md §5 C11',
   technique='symbolic execution of the real AST of value_compare/value_type into z3 (vf.symex) over an algebraic datatype of values; order laws and equivalence with an independent specification decided by z3; CrossHair for the consumers',
   text='The current source of value_compare and value_type is executed symbolically over a z3 datatype of BareScript values (unbounded ints, reals and strings, containers of up to 2 elements, nesting level 1 quick / 2 thorough). z3 decides reflexivity, antisymmetry, range, transitivity, null-least, int/float-spelling independence, bool-never-equals-number, absence of host TypeErrors and equivalence with an independently written specification of the documented order, for all such values; sat models are rebuilt as Python values and replayed on the real function. CrossHair checks that the six relational operators are the sign tests of systemCompare per operand-kind pair, that arraySort yields an ordered permutation and that mathMin/mathMax return a least/greatest argument.',
   note='Trusted: z3, the symex operator models (validated every run against the real function on 961 concrete pairs), CrossHair. value_normalize_datetime is stubbed as the documented key map.'),
 'C13': dict(level='exploration', design='DESIGN.md §5 C13',
   technique='z3 regular-language lemmas on the live number clean-up and numeric-literal regexes against a validated grammar of repr(float); CrossHair over solver-indexed float corners, symbolic ints and solver-chosen mantissa/exponent texts',
   text='z3 decides for every text of the repr(float) grammar (up to 30 characters) that the live clean-up regex fires exactly on intpart.0+ (so integral values lose only the fraction and nothing else is touched) and that every cleaned non-negative text lies in the language of the live numeric-literal regex. CrossHair drives the real stringification, numberParseFloat and the expression parser over a corner pool of floats chosen by a symbolic index and over solver-chosen m e<exp> texts (null instead of non-finite values). The all-doubles round trip float(repr(x)) == x is CPython C code and is an assumption.',
   note='Partly applicable: dtoa/strtod are C code. Trusted: z3 string theory, rx2z3, the repr grammar (validated on 400 reprs per run).'),
 'C14': dict(level='exploration', design='DESIGN.md §5 C14',
   technique='z3 regular-language lemmas generated from the whole-text regex steps found in the live AST of value_json/jsonStringify/jsonParse against a validated grammar of the JSON encoder output; sat models decoded and replayed through the real functions; CrossHair round trip',
   text='Every regex step applied to the whole JSON text is discovered from the current source. For a step whose first alternative consumes string tokens, z3 proves (language inclusion + prefix-freeness, all strings up to 40 characters) that every string token is matched whole and returned unchanged, and by four regular-language obligations that number tokens only ever lose an all-zero fraction; for any other step the solver searches JSON texts on which it fires inside a string token or on the parse side, and each model is replayed through the real jsonStringify/jsonParse. CrossHair adds a structural round trip with solver-indexed punctuation strings, numbers and indents.',
   note='Trusted: the C encoder/decoder (output grammar validated on 150 random values per run), z3 string theory, re.sub left-to-right scanning.'),
 'C10': dict(level='exploration', design='DESIGN.md §5 C10',
   technique='z3 sequence/regex-theory lemmas generated from the live parser regex objects (whitespace closure, comment/continuation invariance, separator and parameter-split languages; sat candidates replayed through parse_script) plus CrossHair-chosen layout rewrites of a marked corpus',
   text='For every line-level statement pattern of the live parser z3 decides, for all ASCII lines up to the length bound and all blank prefixes/suffixes, that classification is closed under re-indentation and trailing blanks; four further language lemmas cover comments, continuation backslashes, the line separator and parameter splitting. Each sat answer is replayed through parse_script (only a changed parse is a violation). CrossHair additionally chooses CRLF/LF, chunking, indentation, trailing blanks, inserted blank/comment lines and the continuation gap on two marked programs that contain every statement kind (solver-driven enumeration, stated as such).',
   note='Trusted: z3 string theory, the rx2z3 translator (validated on sample lines each run), CrossHair. Symbolic source text cannot reach the regex-driven parser: arbitrary-text invariance is outside the claim.'),
 'C12': dict(level='exploration', design='DESIGN.md §5 C12',
   technique='CrossHair symbolic execution of the real library call wrapper twice per symbolic integral n (int spelling vs float spelling from a table indexed by n), z3 decides the case split; results, failure behaviour and post-call arguments compared',
   text='For every numeric parameter of every library function that has one (read from the live argument models), and for numbers flowing as plain values through operators, stringification, JSON and value-taking functions, the call is executed with all numbers spelled as ints and as floats for a symbolic integral n over the parameter range; confirmed means result, failure value, debug log count and post-call argument state agree for every n in the range.',
   note='Trusted: CrossHair/z3. Float spellings come from a concrete table indexed by the symbolic n (symbolic floats never confirm in CrossHair). Other arguments are fixed representative values.'),
 'C15': dict(level='exploration', design='DESIGN.md §5 C15',
   technique='CrossHair symbolic execution of array/object/string library functions from a symbolic container pre-state (aliasing, lengths, elements, indices, counts, values symbolic), differential against reference list/dict/str models',
   text='One condition per library function layout (47 layouts of the 39 functions) and per pair of same-family functions with a mutator: from an arbitrary symbolic pre-state of the aliased container pool, the returned value, every container through every alias, and freshness/identity of the result must equal the reference model, including out-of-range and float-spelled indices. One step from an arbitrary state covers that step within any longer history of these stateless functions.',
   note='Trusted: reference models vf/hlib/c15ref.py, CrossHair list/dict/str models, z3. Not applicable clauses: regexEscape/URL-encoding exactness (C boundaries).'),
 'C05': dict(level='exploration', design='DESIGN.md §5 C05',
   technique='CrossHair symbolic execution of evaluate_expression: typed symbolic operands per operator/kind pair and per library function (wrong-kind vectors and valid-kind symbolic arguments), z3 decides each path',
   text='For each arithmetic operator and ordered pair of operand kinds (unbounded symbolic ints, bools, short strings, solver-indexed adversarial floats incl. inf/nan/-0.0, 400-digit ints, boundary datetimes) CrossHair proves over all values that evaluate_expression returns a BareScript value or raises BareScriptRuntimeError; for each library function with an argument model it proves that every wrong-kind/missing/surplus argument vector yields the documented failure value with exactly one debug log line, and that valid-kind symbolic arguments never let a host exception escape.',
   note='Trusted: CrossHair/z3; failure values read from the live value_args_validate calls. Stub: ValueArgsError message formatting. Deep recursion is a concrete by-product, not a solver verdict.'),
 'C08': dict(level='exploration', design='DESIGN.md §5 C08',
   technique='CrossHair symbolic execution of execute_script on generator-enumerated jump-level models (batches sharing symbolic oracle bits), differential against an independent reference machine; condition-free lists swept natively',
   text='Every statement list up to the length bound over {log, assign, jump, conditional jump, label (2 names, duplicates allowed), return, call of a one-level function} is built as a plain model and run by the real interpreter and by the reference machine; lists containing a conditional jump are executed by CrossHair with all condition outcomes symbolic (confirmed = agreement of result, log, globals, statement count, unchanged model and repeatability for every outcome sequence within the bound).',
   note='Trusted: vf/hlib/refvm.py (first-label lookup, no jump across function boundary), CrossHair/z3. Bounds: length <= 3 (+ sample of 4) quick, <= 4 thorough; length 5-6 outside.'),
 'C20': dict(level='exploration', design='DESIGN.md §5 C20',
   technique='CrossHair symbolic execution of the real interpreter running the shipped diff.bare; lines chosen by symbolic indices from an alphabet incl. the empty line, z3 enumerates the equality patterns path by path',
   text='The shipped diff.bare is loaded through the CLI include fetcher and interpreted; per (left length, right length, input mode) CrossHair explores every choice of lines from the alphabet and checks block well-formedness, reconstruction of both inputs and no Add/Remove for identical inputs, for arrays and for LF/CRLF text. This is solver-driven exhaustive enumeration (the algorithm branches only on line comparisons); shipped includes parse/validate/lint clean is a concrete by-product.',
   note='Trusted: CrossHair/z3 and the interpreter (checked by C01/C03/C08). Bounds: length pairs and alphabet stated in the evidence.'),
 'C01': dict(level='translation_validation', design='DESIGN.md §5 C01',
   technique='CrossHair symbolic execution of parse_script+execute_script per generated program, differential against a big-step reference interpreter over symbolic oracle bits, array lengths and condition values (z3 decides each path)',
   text='Each generated structured program (nesting shapes of the seven constructs with break/continue flavours, global and function scope, multi-function scripts, conditions of all nine value types) is lowered by the real parser and run by the real interpreter under CrossHair with every condition outcome, array length and condition value symbolic; a confirmed condition means return value, effect trace and final globals equal the big-step reading for ALL such inputs within the oracle bound. Shapes where `continue` binds to `while` are additionally checked against a model of known finding F7 so that any other divergence still alarms.',
   note='Trusted: the reference interpreter vf/gen/skel.py, CrossHair models, z3. Bounds: oracle draws <= 5 (quick) / 8 (thorough), arrays <= 2 elements, depth <= 2 (+ sampled depth 3 in thorough).'),
 'C07': dict(level='exploration', design='DESIGN.md §5 C07',
   technique='CrossHair symbolic execution decides "never raises Unknown jump label for any input" per generated shape; static label/schema/lint facts evaluated concretely on every enumerated shape (no solver input exists for them)',
   text='The consequence clause (structured code can never raise "Unknown jump label", whatever the condition outcomes and array lengths) is decided per shape by CrossHair/z3 over symbolic inputs. The static clauses (schema-valid, labels unique per scope, every jump targets a label of its own list, every label targeted, no label lint warnings) depend on the program shape only and are evaluated concretely over every nesting shape to depth 3 in both scopes plus multi-function scripts; the evidence says which part is which.',
   note='Trusted: schema-markdown validation, CrossHair, z3. Static part is exhaustive enumeration of the stated shape set, not a solver verdict.'),
 'C09': dict(level='exploration', design='DESIGN.md §5 C09',
   technique='CrossHair symbolic execution of execute_script (z3 decides every path) with maxStatements as an unbounded symbolic int; differential against an independent reference machine',
   text='Per program of a suite covering every counting path (loops, recursion, sort/indexOf/partial callbacks, data-expression callbacks, nested includes, include inside a function, empty functions, non-terminating loops/includes) CrossHair executes the real interpreter with the limit as a symbolic integer and z3 exhausts all paths: confirmed means the exact/complete/monotone budget contract holds for EVERY integer limit on that program; counterexamples are replayed natively before being reported.',
   note='Trusted: CrossHair int/list/dict models, z3, the reference machine vf/hlib/refvm.py (independent statement counter), evaluate_expression shared by both sides. Bounds: program suite fixed, loop input m enumerated, non-terminating programs limit <= 40/120.'),
}
PENDING = 'check not built yet in this round (work in progress; see DESIGN.md §5 for the planned solver-based check)'

def main():
    props = [json.loads(l) for l in open(os.path.join(ROOT, 'properties.jsonl'))]
    checks, na = [], []
    for p in props:
        pid = p['id']
        c = CHECKS.get(pid)
        if c is None:
            na.append({'property_id': pid, 'reason': NA.get(pid, PENDING)})
            continue
        checks.append({
            'property_id': pid,
            'quick_cmd': f'.venv/bin/python -m vf.check {pid} --tier quick',
            'thorough_cmd': f'.venv/bin/python -m vf.check {pid} --tier thorough',
            'evidence_file': f'/verif/evidence/{pid}.json',
            'replay_cmd_template': '.venv/bin/python -m vf.replay {path}',
            'engine': 'vf',
            'level_claimed': {'category': c['level'], 'text': c['text'], 'design_ref': c['design']},
            'level_note': c['note'] + ' Every counterexample is replayed natively before it is reported; conditions whose inputs range over a small finite domain are additionally enumerated natively (evidence key conditions_by_kind separates CrossHair conditions, SMT lemmas, native by-products and native enumerations); thorough tier re-checks every unsat lemma query with cvc5.',
            'technique': c['technique'],
        })
    m = {
        'version': 1,
        'setup_cmd': 'sh setup.sh',
        'hooks': {'guard': 'BARE_SCRIPT_PY_VERIF', 'enable': 'none needed: no hooks were added to /repo (guard name reserved, unused)',
                  'baseline_off_cmd': 'cd /repo && /venv/bin/python -m pytest -q -p no:cacheprovider', 'source_commits': [], 'add_only': True},
        'engines': [{'name': 'vf', 'path': '/verif/vf', 'serves_properties': [c['property_id'] for c in checks],
                     'kind_free_text': 'CrossHair 0.0.110 symbolic execution of the real bare_script code (z3 5.1 per path) plus z3/cvc5 SMT lemmas generated from the live regex objects and ASTs; every counterexample replayed natively'}],
        'checks': checks,
        'not_applicable': na,
        'notes': 'Exit codes: 0 held on everything explored, 1 replayed violation (VIOLATION line), 2 harness error. Known findings: known_findings.json.',
    }
    json.dump(m, open(os.path.join(ROOT, 'MANIFEST.json'), 'w'), indent=1)
    print('checks', [c['property_id'] for c in checks], 'n/a', [n['property_id'] for n in na])

NA = {}
if __name__ == '__main__':
    main()
