#!/bin/sh
# usage: tools/try_mutant.sh C09-A [quick|thorough] [PROP]  -- apply seeded patch to /repo, run the check, revert. /repo must be clean.
set -u
M="$1"; TIER="${2:-quick}"; PROP="${3:-$(echo "$M" | cut -d- -f1)}"
cd /verif
if [ -n "$(git -C /repo status --porcelain)" ]; then echo "/repo not clean"; exit 3; fi
git -C /repo apply "/verif/seeded/$M/patch.diff" || { echo "apply failed"; exit 3; }
mkdir -p /tmp/mut/ev /tmp/mut/rp
VERIF_EVIDENCE_DIR=/tmp/mut/ev VERIF_REPLAY_DIR=/tmp/mut/rp .venv/bin/python -m vf.check "$PROP" --tier "$TIER" > "/tmp/mut/try-$M-$PROP.log" 2>&1; RC=$?
git -C /repo checkout -- . 
echo "$M vs $PROP ($TIER): rc=$RC  $(grep -c '^VIOLATION' /tmp/mut/try-$M-$PROP.log) violation lines; $(tail -1 /tmp/mut/try-$M-$PROP.log | cut -c1-200)"
exit 0
