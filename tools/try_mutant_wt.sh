#!/bin/sh
# usage: tools/try_mutant_wt.sh C09-A [quick|thorough] [PROP] -- like try_mutant.sh but in a scratch worktree (PYTHONPATH), so trials can run in parallel
set -u
M="$1"; TIER="${2:-quick}"; PROP="${3:-$(echo "$M" | cut -d- -f1)}"
WT="/tmp/mut/par-$M-$PROP"
cd /verif
git -C /repo worktree add --detach "$WT" HEAD >/dev/null 2>&1 || { echo "worktree failed"; exit 3; }
git -C "$WT" apply "/verif/seeded/$M/patch.diff" || { echo "$M apply failed"; git -C /repo worktree remove --force "$WT"; exit 3; }
mkdir -p "/tmp/mut/ev-$M" "/tmp/mut/rp-$M"
PYTHONPATH="$WT/src" VERIF_NPROC="${VERIF_NPROC:-8}" VERIF_EVIDENCE_DIR="/tmp/mut/ev-$M" VERIF_REPLAY_DIR="/tmp/mut/rp-$M" .venv/bin/python -m vf.check "$PROP" --tier "$TIER" > "/tmp/mut/try-$M-$PROP.log" 2>&1; RC=$?
git -C /repo worktree remove --force "$WT"
echo "$M vs $PROP ($TIER): rc=$RC  $(grep -c '^VIOLATION' /tmp/mut/try-$M-$PROP.log) violation lines; $(tail -1 /tmp/mut/try-$M-$PROP.log | cut -c1-200)"
