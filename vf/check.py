"""Entry point:  .venv/bin/python -m vf.check C09 --tier quick|thorough"""
from .engine import main

if __name__ == '__main__':
    main()
