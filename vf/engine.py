"""
Driver: runs a property's plan (CrossHair harnesses, SMT lemmas, native by-products) on a process pool with hard
time-outs, replays every counterexample natively against /repo, applies known_findings.json, writes evidence.

Exit codes: 0 nothing violated in what was explored; 1 replayed violation not listed as known; 2 harness error.
"""
import hashlib
import inspect
import json
import os
import shutil
import subprocess
import sys
import tempfile
import threading
import time

ROOT = os.path.dirname(os.path.dirname(os.path.abspath(__file__)))
PY = os.path.join(ROOT, '.venv', 'bin', 'python')
if not os.path.exists(PY):
    PY = sys.executable        # e.g. a snapshot of /verif driven by /verif/.venv/bin/python
NPROC = int(os.environ.get('VERIF_NPROC', '16'))
# scratch redirection used only by tools/try_mutant.sh so that trial runs do not clobber the committed evidence
EVID_DIR = os.environ.get('VERIF_EVIDENCE_DIR', os.path.join(ROOT, 'evidence'))
REPLAY_DIR = os.environ.get('VERIF_REPLAY_DIR', os.path.join(ROOT, 'replay'))


class Plan:
    def __init__(self, prop, level):
        self.prop = prop
        self.level = level
        self.tasks = []            # task dicts for the worker
        self.meta = {}             # task id -> descriptive meta (family, program text, bounds ...)
        self.functions_encoded = []
        self.bounds = []
        self.stubs = []
        self.outside = []
        self.assumptions = []
        self.rule = ''
        self.samples = []
        self.extra_coverage = {}
        self.preload = []

    def add(self, task, **meta):
        assert task['id'] not in self.meta, task['id']
        self.tasks.append(task)
        self.meta[task['id']] = meta
        return task

    def encode(self, *objs):
        """Record the real functions/objects whose current source the run executes or encodes."""
        for obj in objs:
            try:
                src = inspect.getsource(obj)
                lines = inspect.getsourcelines(obj)
                name = f'{obj.__module__}.{obj.__qualname__}'
                self.functions_encoded.append({
                    'name': name, 'file': inspect.getsourcefile(obj),
                    'lines': [lines[1], lines[1] + len(lines[0]) - 1],
                    'sha1': hashlib.sha1(src.encode()).hexdigest()[:12]})
            except (TypeError, OSError):
                self.functions_encoded.append({'name': repr(obj)[:80]})


def _run_batch(batch, workdir, results, lock, log):
    fd, path = tempfile.mkstemp(suffix='.json', dir=workdir)
    with os.fdopen(fd, 'w') as fh:
        json.dump(batch, fh)
    hard = batch['hard_timeout']
    env = dict(os.environ, PYTHONDONTWRITEBYTECODE='1', PYTHONHASHSEED='0')
    t0 = time.time()
    proc = subprocess.Popen([PY, '-m', 'vf.worker', path], cwd=ROOT, env=env, stdout=subprocess.PIPE,
                            stderr=subprocess.PIPE, text=True)
    timer = threading.Timer(hard, proc.kill)
    timer.start()
    try:
        out, err = proc.communicate()
    finally:
        timer.cancel()
    seen = set()
    for line in out.splitlines():
        if line.startswith('@@RESULT '):
            try:
                res = json.loads(line[9:])
            except json.JSONDecodeError:
                continue
            seen.add(res['id'])
            with lock:
                results[res['id']] = res
    for task in batch['tasks']:
        if task['id'] not in seen:
            with lock:
                results[task['id']] = {'id': task['id'], 'kind': task['kind'], 'state': 'inconclusive',
                                       'error': f'worker ended (rc={proc.returncode}, {time.time() - t0:.0f}s) before this task '
                                                f'reported; stderr tail: {err[-400:]}', 'killed': True}
    os.unlink(path)


def run_tasks(tasks, workdir, seed, preload=(), batch_seconds=60.0, log=None):
    """Run tasks on NPROC worker processes. Tasks are packed into batches of about batch_seconds of budget."""
    batches = []
    cur, cur_s = [], 0.0
    # long tasks first so the tail is short
    order = sorted(tasks, key=lambda t: -float(t.get('timeout', 30)))
    singles = [t for t in order if float(t.get('timeout', 30)) >= batch_seconds / 2]
    smalls = [t for t in order if float(t.get('timeout', 30)) < batch_seconds / 2]
    for t in singles:
        batches.append([t])
    for t in smalls:
        est = float(t.get('est', min(float(t.get('timeout', 30)), 3.0)))
        if cur and cur_s + est > batch_seconds:
            batches.append(cur)
            cur, cur_s = [], 0.0
        cur.append(t)
        cur_s += est
    if cur:
        batches.append(cur)
    jobs = []
    for b in batches:
        hard = sum(float(t.get('timeout', 30)) * 1.3 + 20 for t in b) + 60
        jobs.append({'seed': seed, 'preload': list(preload), 'tasks': b, 'hard_timeout': hard})
    results, lock = {}, threading.Lock()
    sem = threading.Semaphore(NPROC)
    threads = []

    def go(job):
        try:
            _run_batch(job, workdir, results, lock, log)
        finally:
            sem.release()
    for job in jobs:
        sem.acquire()
        th = threading.Thread(target=go, args=(job,))
        th.start()
        threads.append(th)
    for th in threads:
        th.join()
    return results


def native_replay(replay_obj, workdir):
    """Re-run a counterexample in a fresh plain interpreter (no CrossHair). Returns (reproduced, info)."""
    fd, path = tempfile.mkstemp(suffix='.replay.json', dir=workdir)
    with os.fdopen(fd, 'w') as fh:
        json.dump(replay_obj, fh)
    env = dict(os.environ, PYTHONDONTWRITEBYTECODE='1')
    try:
        proc = subprocess.run([PY, '-m', 'vf.replay', path, '--json'], cwd=ROOT, env=env, capture_output=True,
                              text=True, timeout=300)
    except subprocess.TimeoutExpired:
        return None, {'error': 'replay timed out'}
    finally:
        os.unlink(path)
    info = {}
    for line in proc.stdout.splitlines():
        if line.startswith('@@REPLAY '):
            info = json.loads(line[9:])
    if proc.returncode == 1:
        return True, info
    if proc.returncode == 0:
        return False, info
    return None, {'error': f'replay rc={proc.returncode}: {proc.stderr[-500:]}'}


def retry_task_excluding(task, cex, round_no, workdir):
    """R4: a counterexample that does not reproduce natively is a model artefact; re-run the condition with that input excluded."""
    import ast
    src = open(task['module']).read()
    tree = ast.parse(src)
    fn = next((n for n in tree.body if isinstance(n, ast.FunctionDef) and n.name == task['fn']), None)
    if fn is None or not cex or cex.get('kwargs'):
        return None
    params = [a.arg for a in fn.args.args]
    if len(params) != len(cex['args']):
        return None
    excl = ' and '.join(f'{p} == {v!r}' for p, v in zip(params, cex['args']))
    doc = ast.get_docstring(fn, clean=False) or ''
    lines = doc.split('\n')
    idx = max(i for i, ln in enumerate(lines) if ln.strip().startswith('pre:')) if any(ln.strip().startswith('pre:') for ln in lines) else 0
    lines.insert(idx + 1, f'    pre: not ({excl})')
    new = ast.FunctionDef(name=f"{task['fn']}_x{round_no}", args=fn.args, body=[ast.Expr(ast.Constant('\n'.join(lines)))] + fn.body[1:],
                          decorator_list=[], returns=fn.returns, type_params=[])
    ast.fix_missing_locations(new)
    path = os.path.join(workdir, os.path.basename(task['module'])[:-3] + f'_x{round_no}_{task["fn"]}.py')
    with open(path, 'w') as fh:
        fh.write(src + '\n\n' + ast.unparse(new) + '\n')
    t = dict(task)
    t.update(module=path, fn=new.name, id=task['id'])
    return t


def load_known():
    path = os.path.join(ROOT, 'known_findings.json')
    if not os.path.exists(path):
        return []
    return json.load(open(path))['findings']


def match_known(prop, info, meta, known):
    """A known entry matches when every key of its witness equals the corresponding key of the replay info/meta."""
    for entry in known:
        if entry.get('status') != 'known' or entry['property'] != prop:
            continue
        wit = entry.get('witness', {})
        merged = dict(meta or {})
        merged.update(info or {})
        if wit and all(merged.get(k) == v for k, v in wit.items()):
            return entry
    return None


def execute(plan, tier, seed, batch_seconds=60.0):
    t_start = time.time()
    workdir = plan.workdir
    known = load_known()
    if tier == 'thorough':
        for t in plan.tasks:
            if t['kind'] == 'lemma':
                t['cross_check'] = True       # every unsat of an E2 lemma is re-checked with cvc5
    results = run_tasks(plan.tasks, workdir, seed, preload=plan.preload, batch_seconds=batch_seconds)
    # R4: counterexamples that do not reproduce natively are model artefacts - exclude that input and re-run the condition (<= 3 rounds)
    replay_cache = {}
    excluded = {}
    for round_no in range(1, 4):
        retry = []
        for task in plan.tasks:
            res = results.get(task['id'], {})
            if task['kind'] not in ('ch', 'enum') or task.get('twin_of') or res.get('state') != 'refuted' or not res.get('cex'):
                continue
            robj = {'property': plan.prop, 'task': task['id'], 'kind': 'ch', 'fn': task['fn'], 'harness_src': open(task['module']).read(),
                    'args': res['cex']['args'], 'kwargs': res['cex']['kwargs'], 'meta': plan.meta.get(task['id'], {}),
                    'crosshair_message': res.get('cex_message')}
            key = (task['id'], json.dumps(res['cex'], sort_keys=True, default=repr))
            if key not in replay_cache:
                replay_cache[key] = native_replay(robj, workdir)
            if replay_cache[key][0] is False:
                excluded.setdefault(task['id'], []).append(res['cex'])
                cur = dict(task)
                cur['module'] = res.get('_module', task['module'])
                cur['fn'] = res.get('_fn', task['fn'])
                t2 = retry_task_excluding(cur, res['cex'], round_no, workdir)
                if t2 is not None:
                    retry.append(t2)
        if not retry:
            break
        more = run_tasks(retry, workdir, seed, preload=plan.preload, batch_seconds=batch_seconds)
        for t2 in retry:
            r2 = more.get(t2['id'])
            if r2 is not None:
                r2['_module'], r2['_fn'] = t2['module'], t2['fn']
                r2['excluded_spurious_inputs'] = excluded.get(t2['id'])
                results[t2['id']] = r2
    counts = {'confirmed': 0, 'refuted': 0, 'inconclusive': 0, 'skipped': 0, 'known': 0}
    violations, known_hits, inconclusive, errors, spurious = [], [], [], [], []
    paths = queries = 0
    solver_s = 0.0
    twins = {t['twin_of']: t['id'] for t in plan.tasks if t.get('twin_of')}
    by_id = {t['id']: t for t in plan.tasks}
    decided = 0
    for task in plan.tasks:
        tid = task['id']
        res = results.get(tid, {'state': 'inconclusive', 'error': 'no result'})
        paths += res.get('paths') or 0
        queries += res.get('queries') or 0
        solver_s += res.get('solver_s') or 0.0
        if task.get('twin_of'):
            continue
        meta = plan.meta.get(tid, {})
        state = res.get('state')
        if state == 'error':
            errors.append({'id': tid, 'error': res.get('error'), 'traceback': res.get('traceback')})
            continue
        # vacuity twin: only a *confirmed* verdict needs it (a counterexample that replays natively is reachable by definition)
        if tid in twins and state == 'confirmed':
            tw = results.get(twins[tid], {})
            if tw.get('state') == 'confirmed':
                errors.append({'id': tid, 'error': 'vacuous harness: reachability twin confirmed (end of harness unreachable)'})
                continue
            if tw.get('state') != 'refuted':
                state = 'inconclusive'
                res['note'] = f"confirmed but reachability twin not refuted ({tw.get('state')}): not counted"
        if state == 'pre_unsat':
            # CrossHair prints this both for an unsatisfiable precondition and when every attempted path aborted (time-outs):
            # never a success, and not an alarm either
            state = 'inconclusive'
            res['note'] = 'unable to meet precondition (unsatisfiable, or every path timed out)'
        if state in ('confirmed', 'unsat', 'ok'):
            counts['confirmed'] += 1
            decided += 1
        elif state in ('skipped',):
            counts['skipped'] += 1
            inconclusive.append({'id': tid, 'why': 'skipped: ' + str(res.get('why'))})
        elif state in ('refuted', 'violation'):
            # build the replay object
            if task['kind'] in ('ch', 'enum'):
                if not res.get('cex'):
                    counts['inconclusive'] += 1
                    inconclusive.append({'id': tid, 'why': 'counterexample not parseable: ' + str(res.get('cex_message'))[:300]})
                    continue
                replay_obj = {'property': plan.prop, 'task': tid, 'kind': 'ch', 'fn': res.get('_fn', task['fn']),
                              'harness_src': open(res.get('_module', task['module'])).read(), 'args': res['cex']['args'],
                              'kwargs': res['cex']['kwargs'], 'meta': meta, 'crosshair_message': res.get('cex_message')}
            else:
                replay_obj = {'property': plan.prop, 'task': tid, 'kind': 'fn', 'module': res['replay']['module'],
                              'fn': res['replay']['fn'], 'kwargs': res['replay']['kwargs'], 'meta': meta,
                              'detail': res.get('detail')}
            reproduced, info = native_replay(replay_obj, workdir)
            if reproduced is None:
                errors.append({'id': tid, 'error': 'replay failed to run', 'info': info})
                continue
            if not reproduced:
                counts['inconclusive'] += 1
                spurious.append({'id': tid, 'cex': res.get('cex') or res.get('replay'), 'note': 'did not reproduce natively'})
                inconclusive.append({'id': tid, 'why': 'counterexample did not reproduce natively (solver/model artefact)'})
                continue
            decided += 1
            replay_obj['observed'] = info
            entry = match_known(plan.prop, info, meta, known)
            if entry is not None:
                counts['known'] += 1
                known_hits.append({'finding': entry['id'], 'task': tid, 'what': entry['what'],
                                   'input': res.get('cex') or res.get('replay', {}).get('kwargs')})
            else:
                counts['refuted'] += 1
                h = hashlib.sha1(json.dumps([tid, replay_obj.get('args'), replay_obj.get('kwargs')], sort_keys=True,
                                            default=repr).encode()).hexdigest()[:10]
                os.makedirs(REPLAY_DIR, exist_ok=True)
                rpath = os.path.join(REPLAY_DIR, f'{plan.prop}-{h}.json')
                with open(rpath, 'w') as fh:
                    json.dump(replay_obj, fh, indent=1, default=repr)
                violations.append({'task': tid, 'replay': rpath, 'info': info, 'meta': meta,
                                   'input': res.get('cex') or res.get('replay', {}).get('kwargs')})
        else:
            counts['inconclusive'] += 1
            why = res.get('error') or res.get('note') or res.get('why') or '; '.join(
                m['state'] + ' ' + m['message'][:120] for m in res.get('messages', [])) or str(state)
            inconclusive.append({'id': tid, 'why': why[:400]})

    wall = time.time() - t_start
    n_main = len([t for t in plan.tasks if not t.get('twin_of')])
    by_kind = {}
    for t in plan.tasks:
        if t.get('twin_of'):
            continue
        label = {'ch': 'crosshair_conditions', 'lemma': 'smt_lemmas', 'native': 'native_byproducts', 'enum': 'native_enumerations_of_finite_domains'}[t['kind']]
        st = results.get(t['id'], {}).get('state')
        d = by_kind.setdefault(label, {'total': 0, 'held': 0})
        d['total'] += 1
        d['held'] += 1 if st in ('confirmed', 'unsat', 'ok') else 0
    cov = {
        'evaluations': max(1, paths + queries),
        'distinct_nontrivial': decided,
        'rule': plan.rule,
        'samples': plan.samples[:8] or [{'task': t['id'], **{k: v for k, v in plan.meta[t['id']].items()}} for t in plan.tasks[:3]],
        'functions_encoded': plan.functions_encoded,
        'bounds': plan.bounds,
        'conditions': {'total': n_main, **counts},
        'conditions_by_kind': by_kind,
        'lemmas_decided': [{'id': t['id'], 'verdict': results.get(t['id'], {}).get('state'), 'statement': results.get(t['id'], {}).get('lemma'),
                            'notes': results.get(t['id'], {}).get('notes')} for t in plan.tasks if t['kind'] == 'lemma'][:40],
        'paths': paths, 'solver_queries': queries, 'solver_seconds': round(solver_s, 2),
        'stubs': plan.stubs, 'outside_the_claim': plan.outside,
        'exhaustive': bool(n_main and counts['confirmed'] == n_main),
        'inconclusive_items': inconclusive[:60],
        'spurious_counterexamples': spurious[:20],
        'inputs_excluded_as_model_artefacts': dict(list(excluded.items())[:20]),
        'known_findings_hit': known_hits[:40],
        'violation_details': [{'task': v['task'], 'input': v['input'], 'info': v['info']} for v in violations[:20]],
        'harness_errors': errors[:20],
        'cross_checked_with': {'solver': 'cvc5 1.0.3 (binary) on the SMT-LIB2 rendering of each unsat lemma query (thorough tier)',
                               'agree': sum((results.get(t['id'], {}).get('cvc5') or {}).get('agree', 0) for t in plan.tasks),
                               'disagree': sum((results.get(t['id'], {}).get('cvc5') or {}).get('disagree', 0) for t in plan.tasks),
                               'not_portable_or_timeout': sum((results.get(t['id'], {}).get('cvc5') or {}).get('unavailable', 0) for t in plan.tasks)},
    }
    cov.update(plan.extra_coverage)
    if plan.level == 'translation_validation':
        cov.setdefault('programs', plan.extra_coverage.get('programs', n_main))
        cov.setdefault('disagreements_checked', len(violations) + len(known_hits) + len(spurious))
    evidence = {'property_id': plan.prop, 'tier': tier, 'seed': seed, 'level': plan.level, 'coverage': cov,
                'assumptions': plan.assumptions, 'wall_s': round(wall, 2), 'violations': len(violations)}
    os.makedirs(EVID_DIR, exist_ok=True)
    with open(os.path.join(EVID_DIR, f'{plan.prop}.json'), 'w') as fh:
        json.dump(evidence, fh, indent=1, default=repr)

    # report
    seen_f = set()
    for hit in known_hits:
        if hit['finding'] not in seen_f:
            seen_f.add(hit['finding'])
            print(f"KNOWN-FINDING: property={plan.prop} {hit['finding']} {hit['what']}")
    for v in violations:
        print(f"VIOLATION property={plan.prop} replay={v['replay']}")
        print(f"  task={v['task']} input={json.dumps(v['input'], default=repr)[:300]} info={json.dumps(v['info'], default=repr)[:600]}")
    print(f"{plan.prop} {tier}: conditions={n_main} confirmed={counts['confirmed']} violations={len(violations)} "
          f"known={counts['known']} inconclusive={counts['inconclusive']} skipped={counts['skipped']} errors={len(errors)} "
          f"paths={paths} queries={queries} solver_s={solver_s:.1f} wall={wall:.0f}s")
    for e in errors[:10]:
        print('  HARNESS-ERROR', json.dumps(e, default=repr)[:1500])
    if os.environ.get('VERIF_VERBOSE'):
        for i in inconclusive[:40]:
            print('  inconclusive', i)
    if violations:
        return 1
    if errors:
        return 2
    return 0


def main(argv=None):
    import argparse
    import importlib
    ap = argparse.ArgumentParser()
    ap.add_argument('prop')
    ap.add_argument('--tier', default=os.environ.get('VERIF_TIER', 'quick'), choices=['quick', 'thorough'])
    ap.add_argument('--only', default=None, help='substring filter on task ids (debugging)')
    args = ap.parse_args(argv)
    seed = int(os.environ.get('VERIF_SEED', '0'))
    prop = args.prop.upper()
    sys.path.insert(0, ROOT)
    workdir = os.path.join(ROOT, '.work', f'{prop}-{args.tier}-{os.getpid()}')
    os.makedirs(workdir, exist_ok=True)
    try:
        mod = importlib.import_module('vf.props.' + prop.lower())
        plan = mod.plan(args.tier, seed, workdir)
        plan.workdir = workdir
        if args.only:
            keep = {t['id'] for t in plan.tasks if args.only in t['id']}
            plan.tasks = [t for t in plan.tasks if t['id'] in keep or t.get('twin_of') in keep]
        rc = execute(plan, args.tier, seed, batch_seconds=getattr(mod, 'BATCH_SECONDS', 60.0))
    finally:
        shutil.rmtree(workdir, ignore_errors=True)
    sys.exit(rc)
