"""
Structured-program skeletons: tree -> BareScript text, plus an independent big-step reference interpreter of the tree
(written from the language description; it never looks at parse_script's output).

Statement forms (tuples):
  ('log', k)  tt(k)             ('logv', name)  tt(name)
  ('set', name, k)  name = k    ('inc', name)   name = name + 1
  ('if', [(cond, body), ...], else_body|None)
  ('while', cond, body)         ('for', var, idx|None, arr_k, body)
  ('break',) ('continue',)      ('ret', k|None)
  ('call', fname, [k...])       expression statement  fname(k, ...)
  ('setcall', name, fname, [k...])   name = fname(...)
  ('func', name, params, body)
cond: ('cc',) one draw of the boolean oracle | ('vv', k) a host value whose truthiness the real value_boolean decides
"""

IND = '    '


def render(body, depth=0):
    out = []
    pad = IND * depth
    for st in body:
        k = st[0]
        if k == 'log':
            out.append(f'{pad}tt({st[1]})')
        elif k == 'logv':
            out.append(f'{pad}tt({st[1]})')
        elif k == 'set':
            out.append(f'{pad}{st[1]} = {st[2]}')
        elif k == 'inc':
            out.append(f'{pad}{st[1]} = {st[1]} + 1')
        elif k == 'if':
            for i, (cond, b) in enumerate(st[1]):
                out.append(f"{pad}{'if' if i == 0 else 'elif'} {render_cond(cond)}:")
                out.extend(render(b, depth + 1))
            if st[2] is not None:
                out.append(f'{pad}else:')
                out.extend(render(st[2], depth + 1))
            out.append(f'{pad}endif')
        elif k == 'while':
            out.append(f'{pad}while {render_cond(st[1])}:')
            out.extend(render(st[2], depth + 1))
            out.append(f'{pad}endwhile')
        elif k == 'for':
            var = st[1] if st[2] is None else f'{st[1]}, {st[2]}'
            out.append(f'{pad}for {var} in aa({st[3]}):')
            out.extend(render(st[4], depth + 1))
            out.append(f'{pad}endfor')
        elif k == 'break':
            out.append(f'{pad}break')
        elif k == 'continue':
            out.append(f'{pad}continue')
        elif k == 'ret':
            out.append(f'{pad}return' if st[1] is None else f'{pad}return {st[1]}')
        elif k == 'call':
            out.append(f"{pad}{st[1]}({', '.join(str(a) for a in st[2])})")
        elif k == 'setcall':
            out.append(f"{pad}{st[1]} = {st[2]}({', '.join(str(a) for a in st[3])})")
        elif k == 'func':
            out.append(f"{pad}function {st[1]}({', '.join(st[2])}):")
            out.extend(render(st[3], depth + 1))
            out.append(f'{pad}endfunction')
        else:
            raise ValueError(st)
    return out


def render_cond(cond):
    if cond[0] == 'cc':
        return 'cc()'
    if cond[0] == 'vv':
        return f'vv({cond[1]})'
    if cond[0] == 'not':
        return '!' + render_cond(cond[1])
    if cond[0] == 'grp':
        return '(' + render_cond(cond[1]) + ')'
    if cond[0] == 'neg':
        return '-nn(' + str(cond[1]) + ')'          # unary minus on a host number: truthy iff the number is non-zero
    if cond[0] == 'and':
        return render_cond(cond[1]) + ' && ' + render_cond(cond[2])
    if cond[0] == 'or':
        return render_cond(cond[1]) + ' || ' + render_cond(cond[2])
    raise ValueError(cond)


def text(body):
    return '\n'.join(render(body)) + '\n'


# ---------------------------------------------------------------------------------------------------------------------
# reference big-step interpreter

class OracleOut(Exception):
    pass


class _Break(Exception):
    pass


class _Continue(Exception):
    pass


class _Return(Exception):
    def __init__(self, value):
        Exception.__init__(self)
        self.value = value


class RefBudget(Exception):
    """The reference gave up (more than MAX_ITER loop iterations): the run is outside the compared bound."""


MAX_ITER = 60


class RefError(Exception):
    """A run-time error the structured reading also produces (calling an undefined function)."""


class Ref:
    """host: object with cc() -> bool, vv(k) -> bool (truthiness), aa(k) -> list, tt(value) -> None"""

    def __init__(self, host, globals_=None):
        self.h = host
        self.g = globals_ if globals_ is not None else {}
        self.funcs = {}

    def run(self, body):
        try:
            self.block(body, None)
        except _Return as r:
            return r.value
        return None

    def cond(self, c):
        if c[0] == 'cc':
            return self.h.cc()
        if c[0] == 'vv':
            return self.h.vv(c[1])
        if c[0] == 'not':
            return not self.cond(c[1])
        if c[0] == 'grp':
            return self.cond(c[1])
        if c[0] == 'neg':
            return self.h.nn(c[1]) != 0
        if c[0] == 'and':
            return self.cond(c[1]) and self.cond(c[2])
        if c[0] == 'or':
            return self.cond(c[1]) or self.cond(c[2])
        raise ValueError(c)

    def get(self, name, loc):
        if loc is not None and name in loc:
            return loc[name]
        return self.g.get(name)

    def put(self, name, value, loc):
        if loc is not None:
            loc[name] = value
        else:
            self.g[name] = value

    def call(self, fname, args, loc):
        if fname not in self.funcs:
            raise RefError('Undefined function "' + fname + '"')
        name, params, body = self.funcs[fname]
        floc = {}
        for i, p in enumerate(params):
            floc[p] = float(args[i]) if i < len(args) else None
        try:
            self.block(body, floc)
        except _Return as r:
            return r.value
        return None

    def block(self, body, loc):
        for st in body:
            k = st[0]
            if k == 'log':
                self.h.tt(float(st[1]))
            elif k == 'logv':
                self.h.tt(self.get(st[1], loc))
            elif k == 'set':
                self.put(st[1], float(st[2]), loc)
            elif k == 'inc':
                v = self.get(st[1], loc)
                self.put(st[1], (v + 1.0) if isinstance(v, (int, float)) and not isinstance(v, bool) else
                         (None if v is None else v + 1.0), loc)
            elif k == 'if':
                for cond, b in st[1]:
                    if self.cond(cond):
                        self.block(b, loc)
                        break
                else:
                    if st[2] is not None:
                        self.block(st[2], loc)
            elif k == 'while':
                skip_test = False
                iters = 0
                while True:
                    iters += 1
                    if iters > MAX_ITER:
                        raise RefBudget()
                    if not skip_test and not self.cond(st[1]):     # condition re-tested before every iteration
                        break
                    skip_test = False
                    try:
                        self.block(st[2], loc)
                    except _Break:
                        break
                    except _Continue:
                        # self.f7 models known finding F7 (continue re-enters the body without the test); default: re-test
                        skip_test = bool(getattr(self, 'f7', False))
            elif k == 'for':
                arr = self.h.aa(st[3])          # evaluated once
                n = len(arr)                     # length captured once
                i = 0
                while i < n:
                    if st[2] is not None:
                        self.put(st[2], i, loc)
                    self.put(st[1], arr[i], loc)
                    try:
                        self.block(st[4], loc)
                    except _Break:
                        break
                    except _Continue:
                        pass
                    i += 1
                    if st[2] is not None:       # documented lowering: the index variable is advanced before the re-test
                        self.put(st[2], i, loc)
            elif k == 'break':
                raise _Break()
            elif k == 'continue':
                raise _Continue()
            elif k == 'ret':
                raise _Return(None if st[1] is None else float(st[1]))
            elif k == 'call':
                self.call(st[1], st[2], loc)
            elif k == 'setcall':
                self.put(st[1], self.call(st[2], st[3], loc), loc)
            elif k == 'func':
                self.funcs[st[1]] = (st[1], st[2], st[3])
                self.g[st[1]] = ('<function>', st[1])
            else:
                raise ValueError(st)


# ---------------------------------------------------------------------------------------------------------------------
# shape enumeration

IF_KINDS = ('if', 'ifelse', 'ifelif', 'ifelifelse')
LOOP_KINDS = ('while', 'for', 'forix')
FLAVORS = ('n', 'b', 'c', 'bc')
EXTRA_FLAVORS = ('u', 'bu')     # u: unconditional `continue` as the last statement of the body


class Builder:
    def __init__(self):
        self.k = 0
        self.arr = 0
        self.var = 0

    def log(self):
        self.k += 1
        return ('log', self.k)

    def construct(self, kind, flavor, inner, pos):
        """inner: list of statements placed at position pos (branch index for ifs, the single slot for loops)."""
        if kind in IF_KINDS:
            nb = {'if': 1, 'ifelse': 1, 'ifelif': 2, 'ifelifelse': 2}[kind]
            has_else = kind in ('ifelse', 'ifelifelse')
            branches = []
            empty = int(flavor[1:]) if flavor.startswith('e') else -1        # flavour 'e<k>': branch k has an empty body
            rets = flavor == 'r'                                               # flavour 'r': every branch before the else ends in `return`
            for i in range(nb):
                b = ([] if empty == i else [self.log()]) + (inner if pos == i else []) + ([('ret', 60 + i)] if rets else [])
                branches.append((('cc',), b))
            else_body = None
            if has_else:
                else_body = ([] if empty == nb else [self.log()]) + (inner if pos == nb else [])
            return ('if', branches, else_body)
        body = [self.log()]
        if 'b' in flavor:
            body.append(('if', [(('cc',), [('break',)])], None))
        if 'c' in flavor:
            body.append(('if', [(('cc',), [('continue',)])], None))
        if 'B' in flavor:       # break two if-levels deep, the inner one in an else branch
            body.append(('if', [(('cc',), [self.log()])], [('if', [(('cc',), [('break',)])], None)]))
        if 'C' in flavor:       # continue two if-levels deep
            body.append(('if', [(('cc',), [('if', [(('cc',), [('continue',)])], None)])], None))
        body.extend(inner)
        body.append(self.log())
        if 'u' in flavor:
            body.append(('continue',))
        if kind == 'while':
            return ('while', ('cc',), body)
        self.arr += 1
        self.var += 1
        v = f'v{self.var}'
        if kind == 'forix':
            body.insert(1, ('logv', f'i{self.var}'))
        body.insert(1, ('logv', v))
        return ('for', v, f'i{self.var}' if kind == 'forix' else None, self.arr, body)


def positions(kind):
    return {'if': 1, 'ifelse': 2, 'ifelif': 2, 'ifelifelse': 3}.get(kind, 1)


def outer_combos():
    for k in IF_KINDS:
        for p in range(positions(k)):
            yield (k, 'n', p)
    for k in LOOP_KINDS:
        for f in FLAVORS:
            yield (k, f, 0)


def leaf_combos():
    for k in IF_KINDS:
        yield (k, 'n', 0)
    for k in LOOP_KINDS:
        for f in FLAVORS:
            yield (k, f, 0)


def shape_specs(depth):
    """All nesting chains of exactly `depth` constructs: tuple of (kind, flavor, pos); the last has pos 0 (no inner)."""
    if depth == 1:
        for leaf in leaf_combos():
            yield (leaf,)
        return
    for outer in outer_combos():
        for rest in shape_specs(depth - 1):
            yield (outer,) + rest


def build(spec, scope='global', tail_return=False):
    """spec -> (body tree, n_arrays). scope: 'global' | 'function'."""
    b = Builder()

    def rec(ix):
        if ix >= len(spec):
            return []
        kind, flavor, pos = spec[ix]
        inner = rec(ix + 1)
        return [b.construct(kind, flavor, inner, pos)]
    core = [b.log()] + rec(0) + [b.log()]
    if scope == 'function':
        # a guarded return in the innermost slot exercises `return` out of nested constructs
        body = core + [('ret', 77)]
        prog = [('func', 'ff', [], body), ('log', 900), ('setcall', 'rr', 'ff', []), ('logv', 'rr'), ('log', 901)]
    else:
        prog = core + ([('ret', 55)] if tail_return else [])
    return prog, b.arr


def spec_name(spec):
    return '_'.join(f"{k}{'' if f == 'n' else f}{p if positions(k) > 1 and not f.startswith('e') else ''}" for k, f, p in spec)


def has_while_continue(body):
    """True when some `continue` binds to a `while` (finding F7's witness)."""
    def walk(stmts, loop):
        for st in stmts:
            if st[0] == 'continue' and loop == 'while':
                return True
            if st[0] == 'if':
                for _, b in st[1]:
                    if walk(b, loop):
                        return True
                if st[2] is not None and walk(st[2], loop):
                    return True
            elif st[0] == 'while':
                if walk(st[2], 'while'):
                    return True
            elif st[0] == 'for':
                if walk(st[4], 'for'):
                    return True
            elif st[0] == 'func':
                if walk(st[3], None):
                    return True
        return False
    return walk(body, None)
