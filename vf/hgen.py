"""Harness module generator: core function -> CrossHair harness + reachability twin + native explain."""
import os
import textwrap

HEADER = '''\
# generated harness module (vf.hgen) - executed by CrossHair and, for replays, by plain CPython
import sys
sys.path.insert(0, {root!r})
from typing import List, Optional, Tuple, Union, Dict
{stub}
_P = [0]
'''


def module_header(stub=True):
    root = os.path.dirname(os.path.dirname(os.path.abspath(__file__)))
    return HEADER.format(root=root, stub='import vf.hlib.stub' if stub else '')


def harness(name, params, pre, core_call=None):
    """
    params: 'limit: int, m: int'; pre: list of python expressions over the params.
    The module must define core_<name>(<param names>) -> (ok: bool, info: dict).
    Generates <name> (post: _), <name>_twin (must be refuted: proves the end of the core is reachable) and explain_<name>.
    """
    names = ', '.join(p.split(':')[0].strip() for p in _split_params(params))
    call = core_call or f'core_{name}({names})'
    pre_lines = '\n'.join(f'    pre: {p}' for p in pre) or '    pre: True'
    return textwrap.dedent('''
    def {name}({params}) -> bool:
        """
    {pre}
        post: _
        """
        _P[0] += 1
        return {call}[0]


    def {name}_twin({params}) -> bool:
        """
    {pre}
        post: _
        """
        _P[0] += 1
        {call}
        return False


    def explain_{name}({params}):
        return {call}[1]
    ''').format(name=name, params=params, pre=pre_lines, call=call)


def _split_params(params):
    out, depth, cur = [], 0, ''
    for ch in params:
        if ch in '[(':
            depth += 1
        elif ch in '])':
            depth -= 1
        if ch == ',' and depth == 0:
            out.append(cur)
            cur = ''
        else:
            cur += ch
    if cur.strip():
        out.append(cur)
    return out


def write_module(workdir, modname, body, stub=True):
    path = os.path.join(workdir, modname + '.py')
    with open(path, 'w') as fh:
        fh.write(module_header(stub) + body)
    return path


def ch_tasks(plan, path, name, timeout, twin_timeout=20, est=None, enum=None, **meta):
    """Register harness + twin tasks for function `name` of module `path`."""
    tid = f'{os.path.basename(path)[:-3]}.{name}'
    plan.add({'kind': 'ch', 'id': tid, 'module': path, 'fn': name, 'timeout': timeout, 'est': est or min(timeout, 4)}, **meta)
    plan.add({'kind': 'ch', 'id': tid + '#twin', 'module': path, 'fn': name + '_twin', 'timeout': twin_timeout,
              'twin_of': tid, 'est': 1.5})
    if enum:
        # finite input domain: also call the harness natively on every combination (see worker.run_enum)
        plan.add({'kind': 'enum', 'id': tid + '#enum', 'module': path, 'fn': name, 'domain': enum, 'timeout': 600, 'est': 5},
                 family=meta.get('family'), native_enumeration_of=tid)
    return tid
