"""C03: the typed operator semantics written from the language description (independent of runtime.evaluate_expression)."""
import datetime

from bare_script.value import value_string

NULL_ARITH = object()


def is_num(v):
    return isinstance(v, (int, float)) and not isinstance(v, bool)


def is_dt(v):
    return isinstance(v, datetime.date)


def truthy(v):
    if v is None:
        return False
    if isinstance(v, bool):
        return v
    if isinstance(v, (int, float)):
        return v != 0
    if isinstance(v, str):
        return len(v) > 0
    if isinstance(v, list):
        return len(v) > 0
    return True


def norm_dt(v):
    if isinstance(v, datetime.datetime):
        return v
    return datetime.datetime(v.year, v.month, v.day)


def spec_order(a, b):
    from vf.props.c11 import py_spec
    return py_spec(a, b)


def binop(op, a, b, lenient=False):
    """value of `a op b`; bool operands of arithmetic operators are outside the claim: callers either exclude them or pass
    lenient=True, which follows the implementation there (bools act as 0/1)"""
    try:
        return _binop(op, a, b, lenient)
    except (ArithmeticError, ValueError):
        return None            # out-of-range datetime arithmetic and the like: an unsupported operation yields null


def _binop(op, a, b, lenient):
    if lenient and op in ('+', '-', '*', '/', '%', '**'):
        if isinstance(a, bool) and not isinstance(b, str):
            a = int(a)
        if isinstance(b, bool) and not isinstance(a, str):
            b = int(b)
    if op == '+':
        if is_num(a) and is_num(b):
            return a + b
        if isinstance(a, str) and isinstance(b, str):
            return a + b
        if isinstance(a, str):
            return a + value_string(b)
        if isinstance(b, str):
            return value_string(a) + b
        if is_dt(a) and is_num(b):
            return norm_dt(a) + datetime.timedelta(milliseconds=b)
        if is_num(a) and is_dt(b):
            return norm_dt(b) + datetime.timedelta(milliseconds=a)
        return None
    if op == '-':
        if is_num(a) and is_num(b):
            return a - b
        if is_dt(a) and is_dt(b):
            d = norm_dt(a) - norm_dt(b)
            return (d.days * 86400000 + d.seconds * 1000) + round(d.microseconds / 1000)
        return None
    if op in ('*', '/', '%', '**'):
        if not (is_num(a) and is_num(b)):
            return None
        try:
            r = {'*': lambda: a * b, '/': lambda: a / b, '%': lambda: a % b, '**': lambda: a ** b}[op]()
        except (ArithmeticError, ValueError):
            return None
        return None if isinstance(r, complex) else r
    if op in ('==', '!=', '<', '<=', '>', '>='):
        c = spec_order(a, b)
        return {'==': c == 0, '!=': c != 0, '<': c < 0, '<=': c <= 0, '>': c > 0, '>=': c >= 0}[op]
    if op == '&&':
        return b if truthy(a) else a
    if op == '||':
        return a if truthy(a) else b
    raise ValueError(op)


def same(x, y):
    """type-strict equality of BareScript values (1 and true differ, 1 and 1.0 do not)"""
    if isinstance(x, bool) or isinstance(y, bool):
        return isinstance(x, bool) and isinstance(y, bool) and x == y
    if x is None or y is None:
        return x is None and y is None
    if is_num(x) and is_num(y):
        return x == y or (x != x and y != y)
    if type(x) is not type(y) and not (is_dt(x) and is_dt(y)):
        return False
    return x == y


# expression trees for order / once / laziness:  ('leaf', k) | ('bin', op, l, r) | ('un', op, e) | ('grp', e) | ('if', c, t, f) | ('call', [args])
def render(t):
    k = t[0]
    if k == 'leaf':
        return f'ee({t[1]})'
    if k == 'bin':
        wrap = lambda x: f'({render(x)})' if x[0] == 'bin' else render(x)      # keep the tree shape (precedence is C02's subject)
        return f'{wrap(t[2])} {t[1]} {wrap(t[3])}'
    if k == 'un':
        return f'{t[1]}({render(t[2])})' if t[2][0] == 'bin' else f'{t[1]}{render(t[2])}'
    if k == 'grp':
        return f'({render(t[1])})'
    if k == 'if':
        return f'if({render(t[1])}, {render(t[2])}, {render(t[3])})'
    if k == 'call':
        return 'hh(' + ', '.join(render(a) for a in t[1]) + ')'
    if k == 'callu':
        return 'uu(' + ', '.join(render(a) for a in t[1]) + ')'
    raise ValueError(t)


def evaluate(t, leaf, log):
    """reference evaluation: left to right, each operand at most once, && / || / if() lazy"""
    k = t[0]
    if k == 'leaf':
        log.append(t[1])
        return leaf(t[1])
    if k == 'grp':
        return evaluate(t[1], leaf, log)
    if k == 'un':
        v = evaluate(t[2], leaf, log)
        if t[1] == '!':
            return not truthy(v)
        if isinstance(v, bool):
            return -int(v)         # outside the claim; follows the implementation
        return -v if is_num(v) else None
    if k == 'if':
        c = evaluate(t[1], leaf, log)
        return evaluate(t[2] if truthy(c) else t[3], leaf, log)
    if k == 'call':
        args = [evaluate(a, leaf, log) for a in t[1]]
        log.append(('hh', len(args)))
        return args[0] if args else None
    if k == 'callu':
        for a in t[1]:
            evaluate(a, leaf, log)          # arguments are evaluated (left to right) before the callee is looked up
        raise UndefinedFunction('uu')
    op = t[1]
    a = evaluate(t[2], leaf, log)
    if op == '&&':
        return evaluate(t[3], leaf, log) if truthy(a) else a
    if op == '||':
        return a if truthy(a) else evaluate(t[3], leaf, log)
    b = evaluate(t[3], leaf, log)
    return binop(op, a, b, lenient=True)


class UndefinedFunction(Exception):
    pass


def shapes(ops, depth):
    """expression trees over the given binary operators; leaves numbered left to right"""
    def gen(d):
        if d == 0:
            yield ('leaf', None)
            return
        subs = list(gen(d - 1))
        for op in ops:
            for l in subs[:6]:
                for r in subs[:6]:
                    yield ('bin', op, l, r)
        for s in subs[:4]:
            yield ('un', '!', s)
            yield ('un', '-', ('grp', s))
            yield ('grp', s)
        for c in subs[:2]:
            for a in subs[:2]:
                yield ('if', c, a, ('leaf', None))
                yield ('call', [c, a])
                yield ('callu', [c, a])
    out = []
    for d in range(1, depth + 1):
        out.extend(gen(d))
    return [number(t) for t in out]


def number(t):
    counter = [0]

    def rec(x):
        if x[0] == 'leaf':
            counter[0] += 1
            return ('leaf', counter[0] - 1)
        if x[0] == 'bin':
            l = rec(x[2])
            return ('bin', x[1], l, rec(x[3]))
        if x[0] in ('un',):
            return ('un', x[1], rec(x[2]))
        if x[0] == 'grp':
            return ('grp', rec(x[1]))
        if x[0] == 'if':
            c = rec(x[1])
            a = rec(x[2])
            return ('if', c, a, rec(x[3]))
        if x[0] in ('call', 'callu'):
            return (x[0], [rec(a) for a in x[1]])
        raise ValueError(x)
    return rec(t), counter[0]
