"""C08: jump-level model generator + differential runner (real execute_script vs RefVM)."""
import copy
import itertools

from bare_script.runtime import execute_script, BareScriptRuntimeError
from vf.hlib.refvm import RefVM
from vf.hlib.util import untraced, LIB_NAMES, norm_error

LIMIT = 24


def _call(name, *args):
    return {'function': {'name': name, 'args': list(args)}}


def tok(t, pos):
    if t == 'log':
        return {'expr': {'expr': _call('tt', {'number': float(pos)})}}
    if t == 'set':
        return {'expr': {'name': 'xx', 'expr': {'number': float(pos)}}}
    if t == 'logx':
        return {'expr': {'expr': _call('tt', {'variable': 'xx'})}}
    if t in ('ja', 'jb'):
        return {'jump': {'label': 'l' + t[1]}}
    if t in ('ca', 'cb'):
        return {'jump': {'label': 'l' + t[1], 'expr': _call('cc')}}
    if t in ('pa', 'pb'):
        return {'jump': {'label': 'l' + t[1], 'expr': {'variable': 'pv'}}}        # condition is a host value of any type
    if t in ('la', 'lb'):
        return {'label': 'l' + t[1]}
    if t == 'ret':
        return {'return': {'expr': {'number': float(100 + pos)}}}
    if t == 'ret0':
        return {'return': {}}
    if t == 'call':
        return {'expr': {'name': 'rr', 'expr': _call('ff')}}
    raise ValueError(t)


TOKENS = ('log', 'set', 'ja', 'jb', 'ca', 'cb', 'la', 'lb', 'ret', 'call')
# function bodies for ff (one level): label/jump names overlap the caller's on purpose
FBODIES = {
    'f0': ['la', 'log', 'ret'],
    'f1': ['ja'],                     # no label la inside the function: must be "Unknown jump label" even if the caller has la
    'f2': ['cb', 'set', 'lb', 'logx'],
    'f3': ['log', 'lb', 'ca', 'ret0', 'la', 'cb'],
}


def build(tokens, fbody):
    stmts = []
    if fbody is not None:
        stmts.append({'function': {'name': 'ff', 'statements': [tok(t, 50 + i) for i, t in enumerate(FBODIES[fbody])]}})
    stmts.extend(tok(t, i + 1) for i, t in enumerate(tokens))
    return {'statements': stmts}


def programs(maxlen):
    out = []
    for n in range(1, maxlen + 1):
        for toks in itertools.product(TOKENS, repeat=n):
            if 'call' in toks:
                for fb in (None, 'f0', 'f1', 'f2', 'f3'):
                    out.append((toks, fb))
            else:
                out.append((toks, None))
    return out


def value_programs(maxlen=3):
    """lists whose conditional jumps test a host value of any type (truthiness must be value_boolean's, e.g. {} is true)"""
    out = []
    for n in range(1, maxlen + 1):
        for toks in itertools.product(('log', 'pa', 'pb', 'la', 'lb', 'ret'), repeat=n):
            if 'pa' in toks or 'pb' in toks:
                out.append((toks, None))
    return out


def is_symbolic(prog):
    toks, fb = prog
    body = FBODIES[fb] if fb else ()
    return any(t in ('ca', 'cb') for t in toks) or ('call' in toks and any(t in ('ca', 'cb') for t in body))


PV_POOL = [None, 0, '', [], {}, {'a': 1}, 1, 'x', [0], 0.0, True, False, -0.0]


def pv_value(i):
    for j in range(len(PV_POOL)):
        if i == j:
            return PV_POOL[j]
    return None


def run_real(model, bits, limit=LIMIT, pv=None):
    k = [0]
    tr = []

    def cc(args, options):
        if k[0] >= len(bits):
            raise BareScriptRuntimeError('oracle exhausted')
        v = bits[k[0]]
        k[0] += 1
        return v

    def tt(args, options):
        tr.append(args[0] if args else None)
    g = {'cc': cc, 'tt': tt, 'pv': pv}
    opts = {'globals': g, 'maxStatements': limit}
    try:
        r = ('ok', execute_script(model, opts))
    except BareScriptRuntimeError as e:
        r = ('err', norm_error(e))
    with untraced():
        names = [n for n in g if n not in LIB_NAMES and n not in ('cc', 'tt', 'pv')]
    final = [(n, g[n]) for n in sorted(names) if not callable(g[n])]
    return r, tr, final, opts['statementCount']


def run_ref(model, bits, limit=LIMIT, pv=None):
    k = [0]
    tr = []

    def cc(args, options):
        if k[0] >= len(bits):
            raise BareScriptRuntimeError('oracle exhausted')
        v = bits[k[0]]
        k[0] += 1
        return v

    def tt(args, options):
        tr.append(args[0] if args else None)
    vm = RefVM({'cc': cc, 'tt': tt, 'pv': pv}, limit=limit)
    try:
        r = ('ok', vm.run(model))
    except BareScriptRuntimeError as e:
        r = ('err', norm_error(e))
    with untraced():
        names = [n for n in vm.g if n not in LIB_NAMES and n not in ('cc', 'tt', 'pv')]
    final = [(n, vm.g[n]) for n in sorted(names) if not callable(vm.g[n])]
    return r, tr, final, vm.count


def check_one(prog, bits, twice=True, pv=None):
    """-> None when the program behaves per the documented statement semantics, else a description."""
    model = build(*prog)
    with untraced():
        before = copy.deepcopy(model)
    real = run_real(model, bits, pv=pv)
    ref = run_ref(before, bits, pv=pv)
    if real != ref:
        return {'clause': 'statement semantics vs reference machine', 'real': repr(real)[:300], 'reference': repr(ref)[:300]}
    if model != before:
        return {'clause': 'execution modified the model', 'before': repr(before)[:300], 'after': repr(model)[:300]}
    if twice:
        again = run_real(model, bits, pv=pv)
        if again != real:
            return {'clause': 'second execution of the same model differs', 'first': repr(real)[:300], 'second': repr(again)[:300]}
        if model != before:
            return {'clause': 'execution modified the model (second run)'}
    return None


def check_batch(progs, bits, pvi=None):
    pv = pv_value(pvi) if pvi is not None else None
    for prog in progs:
        bad = check_one(prog, bits, twice=('call' in prog[0]), pv=pv)
        if bad is not None:
            bad['program'] = [list(prog[0]), prog[1]]
            bad['model'] = repr(build(*prog))[:600]
            return False, bad
    return True, {}
