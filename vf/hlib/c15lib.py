"""C15 harness support: symbolic pre-state -> twin states (real / reference), one library step on both, comparison."""
from bare_script.runtime import evaluate_expression, BareScriptRuntimeError
from bare_script.library import SCRIPT_FUNCTIONS
from vf.hlib import c15ref


class State:
    def __init__(self, e, nA, nB, alias, ka, kb, va, vb, S, T, U, na=False):
        els = [e[0], e[1], e[2]]
        self.A = [] if nA == 0 else ([els[0]] if nA == 1 else ([els[0], els[1]] if nA == 2 else [els[0], els[1], els[2]]))
        if alias:
            self.B = self.A
        else:
            self.B = [] if nB == 0 else ([e[3]] if nB == 1 else [e[3], e[4]])
        self.O = {}
        if ka:
            self.O['a'] = None if na else va      # a key that is present with an explicit null value
        if kb:
            self.O['b'] = vb
        self.O2 = {'b': 7, 'c': 8}
        self.S, self.T, self.U = S, T, U

    def containers(self):
        return [self.A, self.B, self.O, self.O2]


def _num(ix, fl):
    if not fl:
        return ix
    for j in range(-2, 7):
        if ix == j:
            return float(j)
    return ix


def build_args(spec, st, ix, ix2, val, vs, kc, fl):
    out = []
    for a in spec:
        if a == 'A':
            out.append(st.A)
        elif a == 'B':
            out.append(st.B)
        elif a == 'O':
            out.append(st.O)
        elif a == 'O2':
            out.append(st.O2)
        elif a in ('S', 'T', 'U'):
            out.append(getattr(st, a))
        elif a in ('ix', 'cnt'):
            out.append(_num(ix, fl))
        elif a == 'ix2':
            out.append(_num(ix2, fl))
        elif a == 'val':
            out.append(st.T if vs else val)
        elif a == 'val2':
            out.append(None if vs else val + 1)
        elif a == 'key':
            out.append('c' if kc else 'a')
        elif a == 'key2':
            out.append('b')
        elif a == 'cc2':
            out.append(98)
        else:
            raise ValueError(a)
    return out


def call_real(name, args):
    expr = {'function': {'name': name, 'args': [{'variable': 'a' + str(k)} for k in range(len(args))]}}
    g = dict(('a' + str(k), v) for k, v in enumerate(args))
    g[name] = SCRIPT_FUNCTIONS[name]
    return evaluate_expression(expr, {'globals': g}, None, False)


def step(name, sr, sf, ix, ix2, val, vs, kc, fl):
    """one call of library function `name` on the real state sr and the reference state sf -> None or a description"""
    spec, ref, fail, returns_arg, fresh = c15ref.FUNCS[name]
    rname = c15ref.real_name(name)
    ar = build_args(spec, sr, ix, ix2, val, vs, kc, fl)
    af = build_args(spec, sf, ix, ix2, val, vs, kc, fl)
    try:
        rr = call_real(rname, ar)
    except BareScriptRuntimeError as exc:
        return {'clause': 'library call raised', 'function': rname, 'error': str(exc)[:100]}
    before = [list(c) if isinstance(c, list) else dict(c) for c in sf.containers()]
    rf = ref(af)
    if rf is c15ref.FAIL:
        rf = fail
        if sf.containers() != before:
            return {'clause': 'reference model bug: failed call mutated', 'function': rname}
    same = (rr == rf) and (isinstance(rr, bool) == isinstance(rf, bool)) and ((rr is None) == (rf is None))
    if not same:
        return {'clause': 'result differs from the reference list/dict/str model', 'function': rname, 'args': repr(af)[:200],
                'real': repr(rr)[:120], 'reference': repr(rf)[:120]}
    if sr.containers() != sf.containers():
        return {'clause': 'container state after the call differs from the reference model', 'function': rname, 'args': repr(af)[:200],
                'real': repr(sr.containers())[:200], 'reference': repr(sf.containers())[:200]}
    if (sr.B is sr.A) != (sf.B is sf.A):
        return {'clause': 'aliasing changed', 'function': rname}
    if returns_arg and isinstance(rr, (list, dict)) and rr is not ar[0]:
        return {'clause': 'documented to return the passed container itself', 'function': rname}
    if fresh and isinstance(rr, (list, dict)):
        for c in sr.containers():
            if rr is c:
                return {'clause': 'copy/slice/new must be a fresh container', 'function': rname, 'args': repr(af)[:200]}
    return None


def run_sequence(names, e, nA, nB, alias, ka, kb, va, vb, S, T, U, ix, ix2, val, vs, kc, fl, na=False):
    sr = State(e, nA, nB, alias, ka, kb, va, vb, S, T, U, na)
    sf = State(e, nA, nB, alias, ka, kb, va, vb, S, T, U, na)
    for k, name in enumerate(names):
        bad = step(name, sr, sf, ix if k == 0 else ix2, ix2 if k == 0 else ix, val, vs, kc, fl)
        if bad is not None:
            bad['step'] = k
            bad['sequence'] = list(names)
            return False, bad
    return True, {}
