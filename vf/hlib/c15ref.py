"""
C15 reference models: arrays as Python lists, objects as dicts, strings as str, written from the library documentation
($doc/$arg/$return comments), independent of the implementations in bare_script.library.

Each entry of FUNCS is  name -> (argument spec, reference function).  The reference function receives the concrete
argument list (already built from the symbolic state) and returns (result, failed) where failed means the documented
failure value must be returned and every argument must stay unchanged.  Mutations are done on the passed containers.
"""
FAIL = object()


def _is_num(v):
    return isinstance(v, (int, float)) and not isinstance(v, bool)


def _idx(v, lo=0):
    """integral number >= lo (int or float spelling) -> int, else None"""
    if not isinstance(v, (int, float)) or isinstance(v, bool):
        return None
    if isinstance(v, float) and v != int(v):
        return None
    i = int(v)
    if i < lo:
        return None
    return i


def _cmp_eq(a, b):
    from bare_script.value import value_compare   # the order itself is C11's subject; equality of scalars is all that is used here
    return value_compare(a, b) == 0


def array_copy(a):
    return list(a[0])


def array_delete(a):
    arr, i = a[0], _idx(a[1])
    if i is None or i >= len(arr):
        return FAIL
    del arr[i]
    return None


def array_extend(a):
    arr, other = a
    for v in list(other):
        arr.append(v)
    return arr


def array_get(a):
    arr, i = a[0], _idx(a[1])
    if i is None or i >= len(arr):
        return FAIL
    return arr[i]


def array_index_of(a):
    arr, val = a[0], a[1]
    start = _idx(a[2]) if len(a) > 2 else 0
    if start is None or (start >= len(arr)):
        return FAIL
    for i in range(start, len(arr)):
        if _cmp_eq(arr[i], val):
            return i
    return -1


def array_last_index_of(a):
    arr, val = a[0], a[1]
    start = (_idx(a[2]) if a[2] is not None else len(arr) - 1) if len(a) > 2 else len(arr) - 1
    if start is None or start >= len(arr):
        return FAIL
    i = start
    while i >= 0:
        if _cmp_eq(arr[i], val):
            return i
        i -= 1
    return -1


def array_join(a):
    from bare_script.value import value_string
    return a[1].join([value_string(v) for v in a[0]])


def array_length(a):
    return len(a[0])


def array_new(a):
    return list(a)


def array_new_size(a):
    n = _idx(a[0]) if len(a) > 0 else 0
    if n is None:
        return FAIL
    fill = a[1] if len(a) > 1 else 0
    return [fill] * n


def array_pop(a):
    arr = a[0]
    if len(arr) == 0:
        return FAIL
    return arr.pop()


def array_push(a):
    arr = a[0]
    for v in a[1:]:
        arr.append(v)
    return arr


def array_set(a):
    arr, i, v = a[0], _idx(a[1]), a[2]
    if i is None or i >= len(arr):
        return FAIL
    arr[i] = v
    return v


def array_shift(a):
    arr = a[0]
    if len(arr) == 0:
        return FAIL
    return arr.pop(0)


def array_slice(a):
    arr = a[0]
    start = _idx(a[1]) if len(a) > 1 else 0
    end = (_idx(a[2]) if a[2] is not None else len(arr)) if len(a) > 2 else len(arr)
    if start is None or end is None or start > len(arr) or end > len(arr):
        return FAIL
    return [arr[i] for i in range(start, end)]


def array_sort(a):
    import functools
    from bare_script.value import value_compare
    arr = a[0]
    arr[:] = sorted(arr, key=functools.cmp_to_key(value_compare))
    return arr


def object_assign(a):
    o, o2 = a
    for k in list(o2):
        o[k] = o2[k]
    return o


def object_copy(a):
    return dict(a[0])


def object_delete(a):
    o, k = a
    o.pop(k, None)
    return None


def object_get(a):
    o, k = a[0], a[1]
    d = a[2] if len(a) > 2 else None
    return o[k] if k in o else d


def object_has(a):
    return a[1] in a[0]


def object_keys(a):
    return [k for k in a[0]]


def object_new(a):
    o = {}
    for i in range(0, len(a), 2):
        if not isinstance(a[i], str):
            return FAIL
        o[a[i]] = a[i + 1] if i + 1 < len(a) else None
    return o


def object_set(a):
    a[0][a[1]] = a[2]
    return a[2]


def string_char_code_at(a):
    s, i = a[0], _idx(a[1])
    if i is None or i >= len(s):
        return FAIL
    return ord(s[i])


def string_ends_with(a):
    s, t = a
    return len(t) <= len(s) and s[len(s) - len(t):] == t


def string_from_char_code(a):
    out = ''
    for c in a:
        i = _idx(c)
        if i is None or not _is_num(c):
            return FAIL
        out += chr(i)
    return out


def string_index_of(a):
    s, t = a[0], a[1]
    start = _idx(a[2]) if len(a) > 2 else 0
    if start is None or start >= len(s):
        return FAIL
    for i in range(start, len(s) - len(t) + 1):
        if s[i:i + len(t)] == t:
            return i
    return -1


def string_last_index_of(a):
    s, t = a[0], a[1]
    start = (_idx(a[2]) if a[2] is not None else len(s) - 1) if len(a) > 2 else len(s) - 1
    if start is None or start >= len(s):
        return FAIL
    i = min(start, len(s) - len(t))
    while i >= 0:
        if s[i:i + len(t)] == t:
            return i
        i -= 1
    return -1


def string_length(a):
    return len(a[0])


def string_lower(a):
    return a[0].lower()


def string_upper(a):
    return a[0].upper()


def string_trim(a):
    return a[0].strip()


def string_new(a):
    from bare_script.value import value_string
    return value_string(a[0])


def string_repeat(a):
    s, n = a[0], _idx(a[1])
    if n is None:
        return FAIL
    out = ''
    for _ in range(n):
        out += s
    return out


def string_replace(a):
    s, t, u = a
    if t == '':
        return s.replace(t, u)      # documented as "replace all instances"; the empty pattern follows the host convention
    out, i = '', 0
    while i < len(s):
        if s[i:i + len(t)] == t:
            out += u
            i += len(t)
        else:
            out += s[i]
            i += 1
    return out


def string_slice(a):
    s = a[0]
    start = _idx(a[1])
    end = (_idx(a[2]) if a[2] is not None else len(s)) if len(a) > 2 else len(s)
    if start is None or end is None or start > len(s) or end > len(s):
        return FAIL
    return ''.join(s[i] for i in range(start, end))


def string_split(a):
    s, t = a
    if t == '':
        return FAIL
    out, cur, i = [], '', 0
    while i < len(s):
        if s[i:i + len(t)] == t:
            out.append(cur)
            cur = ''
            i += len(t)
        else:
            cur += s[i]
            i += 1
    out.append(cur)
    return out


def string_starts_with(a):
    s, t = a
    return s[:len(t)] == t


# name -> (arg spec, reference, documented failure value, returns-the-argument-container?, result-must-be-fresh?)
FUNCS = {
    'arrayCopy': (['A'], array_copy, None, False, True),
    'arrayDelete': (['A', 'ix'], array_delete, None, False, False),
    'arrayExtend': (['A', 'B'], array_extend, None, True, False),
    'arrayGet': (['A', 'ix'], array_get, None, False, False),
    'arrayIndexOf': (['A', 'val', 'ix'], array_index_of, -1, False, False),
    'arrayIndexOf2': (['A', 'val'], array_index_of, -1, False, False),
    'arrayJoin': (['A', 'T'], array_join, None, False, False),
    'arrayLastIndexOf': (['A', 'val', 'ix'], array_last_index_of, -1, False, False),
    'arrayLastIndexOf2': (['A', 'val'], array_last_index_of, -1, False, False),
    'arrayLength': (['A'], array_length, 0, False, False),
    'arrayNew': (['val', 'val2', 'ix'], array_new, None, False, True),
    'arrayNewSize': (['cnt', 'val'], array_new_size, None, False, True),
    'arrayPop': (['A'], array_pop, None, False, False),
    'arrayPush': (['A', 'val', 'val2'], array_push, None, True, False),
    'arraySet': (['A', 'ix', 'val'], array_set, None, False, False),
    'arrayShift': (['A'], array_shift, None, False, False),
    'arraySlice': (['A', 'ix', 'ix2'], array_slice, None, False, True),
    'arraySlice1': (['A'], array_slice, None, False, True),
    'arraySlice2': (['A', 'ix'], array_slice, None, False, True),
    'arraySort': (['A'], array_sort, None, True, False),
    'objectAssign': (['O', 'O2'], object_assign, None, True, False),
    'objectCopy': (['O'], object_copy, None, False, True),
    'objectDelete': (['O', 'key'], object_delete, None, False, False),
    'objectGet': (['O', 'key', 'val'], object_get, None, False, False),
    'objectGet2': (['O', 'key'], object_get, None, False, False),
    'objectHas': (['O', 'key'], object_has, False, False, False),
    'objectKeys': (['O'], object_keys, None, False, True),
    'objectNew': (['key', 'val', 'key2', 'val2'], object_new, None, False, True),
    'objectSet': (['O', 'key', 'val'], object_set, None, False, False),
    'stringCharCodeAt': (['S', 'ix'], string_char_code_at, None, False, False),
    'stringEndsWith': (['S', 'T'], string_ends_with, None, False, False),
    'stringFromCharCode': (['cnt', 'cc2'], string_from_char_code, None, False, False),
    'stringIndexOf': (['S', 'T', 'ix'], string_index_of, -1, False, False),
    'stringIndexOf2': (['S', 'T'], string_index_of, -1, False, False),
    'stringLastIndexOf': (['S', 'T', 'ix'], string_last_index_of, -1, False, False),
    'stringLastIndexOf2': (['S', 'T'], string_last_index_of, -1, False, False),
    'stringLength': (['S'], string_length, 0, False, False),
    'stringLower': (['S'], string_lower, None, False, False),
    'stringNew': (['val'], string_new, None, False, False),
    'stringRepeat': (['S', 'cnt'], string_repeat, None, False, False),
    'stringReplace': (['S', 'T', 'U'], string_replace, None, False, False),
    'stringSlice': (['S', 'ix', 'ix2'], string_slice, None, False, False),
    'stringSlice2': (['S', 'ix'], string_slice, None, False, False),
    'stringSplit': (['S', 'T'], string_split, None, False, False),
    'stringStartsWith': (['S', 'T'], string_starts_with, None, False, False),
    'stringTrim': (['S'], string_trim, None, False, False),
    'stringUpper': (['S'], string_upper, None, False, False),
}


def real_name(name):
    return name.rstrip('0123456789')
