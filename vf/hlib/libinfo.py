"""Introspection of the live library: per script function its argument model and documented failure value, read from
the current source (AST of the value_args_validate call)."""
import ast
import inspect
import textwrap

import bare_script.library as lib

EXCLUDE = {'systemFetch', 'datetimeNow', 'datetimeToday', 'mathRandom', 'systemLog', 'systemLogDebug'}


def functions():
    out = {}
    for name, fn in lib.SCRIPT_FUNCTIONS.items():
        info = {'name': name, 'fn': fn, 'model': None, 'fail': None, 'has_model': False}
        try:
            tree = ast.parse(textwrap.dedent(inspect.getsource(fn)))
        except (OSError, TypeError):
            out[name] = info
            continue
        for node in ast.walk(tree):
            if isinstance(node, ast.Call) and getattr(node.func, 'id', None) == 'value_args_validate' and node.args:
                mname = getattr(node.args[0], 'id', None)
                model = getattr(lib, mname, None) if mname else None
                if model is not None:
                    info['model'] = model
                    info['has_model'] = True
                    if len(node.args) >= 3:
                        try:
                            info['fail'] = ast.literal_eval(node.args[2])
                        except ValueError:
                            info['fail'] = None
                            info['fail_dynamic'] = True       # e.g. objectGet: the caller-supplied default
                break
        out[name] = info
    return out
