"""
Reference machine for jump-level BareScript models, written from the documented statement semantics (property C08/C09),
independently of bare_script.runtime._execute_script_helper.  Expressions are evaluated by the real evaluate_expression
(the expression evaluator is C03's subject, not the statement loop's); script functions are bound as closures that run
the *reference* machine, so statement counting, jumps, returns, includes and scoping are all the reference's own.
"""
from bare_script.runtime import evaluate_expression, BareScriptRuntimeError
from bare_script.parser import parse_script, BareScriptParserError
from bare_script.library import SCRIPT_FUNCTIONS, DEFAULT_MAX_STATEMENTS
from bare_script.value import value_boolean


class RefVM:
    def __init__(self, globals_=None, limit=None, fetch=None, system_prefix=None, url_fn=None, resolve=None, extra_options=None):
        self.g = globals_ if globals_ is not None else {}
        for name, fn in SCRIPT_FUNCTIONS.items():      # library never overwrites a caller-supplied name
            if name not in self.g:
                self.g[name] = fn
        self.limit = DEFAULT_MAX_STATEMENTS if limit is None else limit
        self.count = 0
        self.fetch = fetch
        self.system_prefix = system_prefix
        self.url_fn = url_fn               # current base resolver: str -> str (None: identity)
        self.resolve = resolve             # resolver factory: (base_url) -> (str -> str)
        self.options = {'globals': self.g}
        if extra_options:
            self.options.update(extra_options)

    def run(self, model):
        self.count = 0
        return self._exec(model['statements'], None)

    def _tick(self):
        self.count += 1
        if self.limit > 0 and self.count > self.limit:
            raise BareScriptRuntimeError(f'Exceeded maximum script statements ({self.limit})')

    def _eval(self, expr, locals_):
        return evaluate_expression(expr, self.options, locals_, False)

    def _exec(self, statements, locals_):
        pc = 0
        n = len(statements)
        while pc < n:
            st = statements[pc]
            self._tick()
            if 'expr' in st:
                v = self._eval(st['expr']['expr'], locals_)
                name = st['expr'].get('name')
                if name is not None:
                    if locals_ is not None:
                        locals_[name] = v
                    else:
                        self.g[name] = v
            elif 'jump' in st:
                j = st['jump']
                if 'expr' not in j or value_boolean(self._eval(j['expr'], locals_)):
                    target = -1
                    for k in range(n):                      # first label of that name in the same list
                        if 'label' in statements[k] and statements[k]['label'] == j['label']:
                            target = k
                            break
                    if target < 0:
                        raise BareScriptRuntimeError('Unknown jump label "' + j['label'] + '"')
                    pc = target
            elif 'return' in st:
                if 'expr' in st['return']:
                    return self._eval(st['return']['expr'], locals_)
                return None
            elif 'function' in st:
                self.g[st['function']['name']] = self._bind(st['function'])
            elif 'include' in st:
                for inc in st['include']['includes']:
                    self._include(inc)
            # 'label': nothing to do
            pc += 1
        return None

    def _bind(self, fdef):
        def script_function(args, options):  # pylint: disable=unused-argument
            params = fdef.get('args') or []
            loc = {}
            for i, pname in enumerate(params):
                if fdef.get('lastArgArray') and i == len(params) - 1:
                    loc[pname] = list(args[i:]) if i < len(args) else []
                else:
                    loc[pname] = args[i] if i < len(args) else None
            return self._exec(fdef['statements'], loc)
        return script_function

    def _include(self, inc):
        url = inc['url']
        if inc.get('system') and self.system_prefix is not None:
            url = self.resolve(self.system_prefix)(url)
        elif self.url_fn is not None:
            url = self.url_fn(url)
        text = None
        if self.fetch is not None:
            try:
                text = self.fetch({'url': url})
            except Exception:  # pylint: disable=broad-exception-caught
                text = None
        if text is None:
            raise BareScriptRuntimeError(f'Include of "{url}" failed')
        try:
            model = parse_script(text)
        except BareScriptParserError as exc:
            raise BareScriptParserError(exc.error, exc.line, exc.column_number, exc.line_number, f'Included from "{url}"')
        saved = self.url_fn
        self.url_fn = self.resolve(url)
        try:
            self._exec(model['statements'], None)          # global scope; a return ends only the include
        finally:
            self.url_fn = saved
