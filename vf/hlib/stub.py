"""Harness-side stub: ValueArgsError keeps its return_value but does not format its message (value_json + regexes on
symbolic values fork CrossHair without end). Listed under `stubs` in every evidence file that uses it."""
import bare_script.value as _v


def _init(self, arg_name, arg_value, return_value=None):
    Exception.__init__(self, 'args error')
    self.return_value = return_value


_v.ValueArgsError.__init__ = _init
