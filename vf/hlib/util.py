"""Harness utilities."""
import contextlib
import sys

from bare_script.library import SCRIPT_FUNCTIONS

LIB_NAMES = frozenset(SCRIPT_FUNCTIONS)


def untraced():
    """CrossHair's NoTracing when running under CrossHair (skips opcode interception for concrete bookkeeping), else a no-op."""
    if 'crosshair.tracers' in sys.modules:
        from crosshair.tracers import NoTracing
        return NoTracing()
    return contextlib.nullcontext()
