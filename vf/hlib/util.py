"""Harness utilities."""
import contextlib
import sys

from bare_script.library import SCRIPT_FUNCTIONS

LIB_NAMES = frozenset(SCRIPT_FUNCTIONS)


def norm_error(message):
    """runtime error message -> what the properties actually quote: the documented phrase (+ the name it mentions), so that a
    re-worded message is not an alarm"""
    import re
    message = str(message)
    for phrase in ('Exceeded maximum script statements', 'Unknown jump label', 'Undefined function', 'Include of'):
        if message.startswith(phrase):
            m = re.search(r'"([^"]*)"', message)
            return phrase + (' ' + m.group(1) if m and phrase != 'Exceeded maximum script statements' else '')
    return message


def untraced():
    """CrossHair's NoTracing when running under CrossHair (skips opcode interception for concrete bookkeeping), else a no-op."""
    if 'crosshair.tracers' in sys.modules:
        from crosshair.tracers import NoTracing
        return NoTracing()
    return contextlib.nullcontext()
