"""
C01 structured control flow: translation validation of parse_script+execute_script against a big-step reference.

Per program shape (enumerated by vf.gen.skel, concrete text for the regex-driven parser) one CrossHair condition whose
symbolic inputs are the oracle bits consumed by every cc() condition, the lengths of the arrays walked by for loops and -
in the value family - which value of each of the nine types a condition evaluates to.
"""
import random

from ..engine import Plan
from .. import hgen
from ..gen import skel

CORE = '''
import datetime, re
from bare_script import parse_script, execute_script
from bare_script.runtime import BareScriptRuntimeError
from vf.gen import skel
from vf.hlib.util import untraced, LIB_NAMES, norm_error

PROG = {prog!r}
NARR = {narr}
F7MODE = {f7mode!r}
SRC = skel.text(PROG)
MODEL = parse_script(SRC)
ELEMS = {{1: [10.0, 11.0], 2: [20.0, 21.0], 3: [30.0, 31.0]}}
POOL = [None, False, True, 0, 1, -3, 0.0, -0.0, 0.5, '', 'a', [], [0], {{}}, {{'a': 1}}, datetime.datetime(2024, 1, 2),
        datetime.date(2024, 1, 2), len, re.compile('a')]


NUMS = [0, 3, -2, 0.5]


def spec_truthy(v):
    # language reference: null, false, 0, '' and the empty array are false; everything else (incl. {{}}) is true
    if v is None:
        return False
    if isinstance(v, bool):
        return v
    if isinstance(v, (int, float)):
        return v != 0
    if isinstance(v, str):
        return len(v) > 0
    if isinstance(v, list):
        return len(v) > 0
    return True


def _pick(i):
    # explicit case split (symbolic indexing of a heterogeneous list is not supported by CrossHair's list model)
    for j in range(len(POOL)):
        if i == j:
            return POOL[j]
    return None


def _arr(j, ns):
    n = ns[j - 1]
    e = ELEMS[j]
    if n == 0:
        return []
    if n == 1:
        return [e[0]]
    return [e[0], e[1]]


def run_real(bits, ns, px):
    k = [0]
    tr = []

    def cc(args, options):
        if k[0] >= len(bits):
            raise BareScriptRuntimeError('oracle exhausted')
        v = bits[k[0]]
        k[0] += 1
        return v

    def vv(args, options):
        return _pick(px[int(args[0]) - 1])

    def nn(args, options):
        return NUMS[px[int(args[0]) - 1] % 4]

    def tt(args, options):
        tr.append(args[0] if args else None)

    def aa(args, options):
        return _arr(int(args[0]), ns)
    g = {{'cc': cc, 'tt': tt, 'aa': aa, 'vv': vv, 'nn': nn}}
    try:
        r = ('ok', execute_script(MODEL, {{'globals': g, 'maxStatements': 300}}))
    except BareScriptRuntimeError as e:
        r = ('err', 'out' if 'oracle exhausted' in str(e) else norm_error(e))
    with untraced():       # harness-side bookkeeping over concrete key strings only; values are not inspected
        names = [n for n in g if n not in LIB_NAMES and not n.startswith('__bareScript') and n not in ('cc', 'tt', 'aa', 'vv', 'nn')]
    final = dict((n, g[n]) for n in names if not callable(g[n]))
    return r, tr, final, k[0]


class _Host:
    def __init__(self, bits, ns, px):
        self.bits, self.ns, self.px = bits, ns, px
        self.k = 0
        self.tr = []

    def cc(self):
        if self.k >= len(self.bits):
            raise skel.OracleOut()
        v = self.bits[self.k]
        self.k += 1
        return v

    def vv(self, j):
        return spec_truthy(_pick(self.px[j - 1]))

    def nn(self, j):
        return NUMS[self.px[j - 1] % 4]

    def tt(self, v):
        self.tr.append(v)

    def aa(self, j):
        return _arr(j, self.ns)


def run_ref(bits, ns, px, f7=False):
    h = _Host(bits, ns, px)
    ref = skel.Ref(h)
    ref.f7 = f7
    try:
        r = ('ok', ref.run(PROG))
    except skel.OracleOut:
        r = ('err', 'out')
    except skel.RefError as e:
        r = ('err', norm_error(e))
    except skel.RefBudget:
        r = ('budget', None)
    final = dict((n, v) for n, v in ref.g.items() if not isinstance(v, tuple))
    return r, h.tr, final, h.k


def _agree(real, ref, f7model):
    if ref[0][0] == 'budget':
        # only reachable with the F7 lowering model (an unconditional continue in a while never consumes the oracle): the real run
        # ends at the maxStatements backstop and there is nothing further to compare
        return f7model and real[0][0] == 'err' and 'Exceeded maximum' in str(real[0][1])
    return real == ref


def core_sem(bits, n1=0, n2=0, n3=0, p1=0, p2=0):
    ns = (n1, n2, n3)
    px = (p1, p2)
    real = run_real(bits, ns, px)
    ref = run_ref(bits, ns, px, f7=(F7MODE == 'modulo'))
    ok = _agree(real, ref, F7MODE == 'modulo')
    info = {{'mode': F7MODE}}
    if not ok:
        j = 0
        while j < len(real[1]) and j < len(ref[1]) and real[1][j] == ref[1][j]:
            j += 1
        info.update(source=SRC, real=repr(real)[:500], reference=repr(ref)[:500], first_trace_divergence=j,
                    while_continue=skel.has_while_continue(PROG),
                    unknown_jump_label=('Unknown jump label' in str(real[0][1])))
        if F7MODE == 'strict' and info['while_continue']:
            # does the known wrong lowering (continue re-enters the while body without re-testing) explain the run?
            info['f7_explains'] = _agree(real, run_ref(bits, ns, px, f7=True), True)
    return ok, info


def core_lbl(bits, n1=0, n2=0, n3=0, p1=0, p2=0):
    # C07 consequence clause: structured code never raises "Unknown jump label", whatever the inputs
    real = run_real(bits, (n1, n2, n3), (p1, p2))
    bad = real[0][0] == 'err' and 'Unknown jump label' in str(real[0][1])
    if not bad:
        return True, {{}}            # never repr() symbolic state on the success path: it realises values and multiplies paths
    return False, {{'source': SRC, 'real': repr(real)[:500], 'unknown_jump_label': True}}
'''


def _params(narr, nvv):
    ps = ['bits: List[bool]']
    pre = []
    for i in range(narr):
        ps.append(f'n{i + 1}: int')
        pre.append(f'0 <= n{i + 1} <= 2')
    for i in range(nvv):
        ps.append(f'p{i + 1}: int')
        pre.append(f'0 <= p{i + 1} < 19')
    return ', '.join(ps), pre


def _condform(body, form):
    """replace the condition of every outermost if / while by a compound form over cc() / nn(1)"""
    mk = {'not': ('not', ('cc',)), 'grp': ('grp', ('cc',)), 'neg': ('neg', 1), 'notneg': ('not', ('neg', 1)), 'and': ('and', ('cc',), ('cc',)),
          'or': ('or', ('cc',), ('neg', 1)), 'notgrp': ('not', ('grp', ('and', ('cc',), ('cc',))))}[form]
    out = []
    for st in body:
        if st[0] == 'if' and not (st[1][0][1] and st[1][0][1][0][0] in ('break', 'continue')):
            out.append(('if', [(mk, b) for _c, b in st[1]], st[2]))
        elif st[0] == 'while':
            out.append(('while', mk if form not in ('neg', 'notneg') else ('and', mk, ('cc',)), st[2]))
        elif st[0] == 'func':
            out.append(('func', st[1], st[2], _condform(st[3], form)))
        else:
            out.append(st)
    return out


def _count_vv(body):
    n = 0
    for st in body:
        if st[0] == 'if':
            for c, b in st[1]:
                if c[0] == 'vv':
                    n = max(n, c[1])
                if 'neg' in repr(c):
                    n = max(n, 1)
                n = max(n, _count_vv(b))
            if st[2]:
                n = max(n, _count_vv(st[2]))
        elif st[0] == 'while':
            if st[1][0] == 'vv':
                n = max(n, st[1][1])
            if 'neg' in repr(st[1]):
                n = max(n, 1)
            n = max(n, _count_vv(st[2]))
        elif st[0] == 'for':
            n = max(n, _count_vv(st[4]))
        elif st[0] == 'func':
            n = max(n, _count_vv(st[3]))
    return n


def _vvify(body, counter):
    """Replace the conditions of the outermost constructs by host values vv(k) (at most 2), keep guards on cc()."""
    out = []
    for st in body:
        if st[0] == 'if' and counter[0] < 2 and not (len(st[1]) == 1 and st[1][0][1] and st[1][0][1][0][0] in ('break', 'continue')):
            counter[0] += 1
            k = counter[0]
            br = [((('vv', k) if i == 0 else c), b) for i, (c, b) in enumerate(st[1])]
            out.append(('if', br, st[2]))
        elif st[0] == 'while' and counter[0] < 2:
            counter[0] += 1
            out.append(('while', ('vv', counter[0]), st[2]))
        elif st[0] == 'func':
            out.append(('func', st[1], st[2], _vvify(st[3], counter)))
        else:
            out.append(st)
    return out


def add_shape(p, workdir, name, prog, narr, maxbits, timeout, family, fn='sem'):
    nvv = _count_vv(prog)
    params, pre = _params(narr, nvv)
    pre = [f'len(bits) <= {maxbits}'] + pre
    names = ', '.join((lambda n: n if n == 'bits' else f'{n}={n}')(x.split(':')[0].strip()) for x in params.split(', '))
    modes = ['strict']
    if fn == 'sem' and skel.has_while_continue(prog):
        modes.append('modulo')       # same shape checked against the F7-lowering reference: anything else still alarms
    for mode in modes:
        body = CORE.format(prog=prog, narr=narr, f7mode=mode)
        body += hgen.harness(fn, params, pre, core_call=f'core_{fn}({names})')
        path = hgen.write_module(workdir, f'{p.prop.lower()}_{family}_{name}_{mode}', body)
        hgen.ch_tasks(p, path, fn, timeout, family=family, shape=name, mode=mode, source=skel.text(prog),
                      while_continue=skel.has_while_continue(prog))


def special_specs():
    """Loops whose body ends in an unconditional `continue` (alone and nested), which the flavour grid does not contain."""
    out = []
    for k in skel.LOOP_KINDS:
        for f in skel.EXTRA_FLAVORS:
            out.append(((k, f, 0),))
    for outer in (('ifelse', 'n', 1), ('ifelif', 'n', 0), ('while', 'b', 0), ('for', 'n', 0), ('forix', 'u', 0)):
        for k in skel.LOOP_KINDS:
            out.append((outer, (k, 'u', 0)))
    # break / continue two if-levels deep (also in an else branch), in every loop kind, alone and nested in a loop
    for k in skel.LOOP_KINDS:
        for f in ('B', 'C', 'BC', 'bB'):
            out.append(((k, f, 0),))
        out.append((('while', 'b', 0), (k, 'B', 0)))
    # if chains whose branches all end in `return` (function scope only makes sense; the global variant ends the script)
    for kind in ('ifelse', 'ifelif', 'ifelifelse'):
        out.append(((kind, 'r', 99),))
        out.append((('for', 'n', 0), (kind, 'r', 99)))
    # branches with an empty body (the lowering then has two jumps / a jump and a label back to back), alone and inside a loop
    for kind, nbr in (('if', 1), ('ifelse', 2), ('ifelif', 2), ('ifelifelse', 3)):
        for e in range(nbr):
            out.append(((kind, f'e{e}', 99),))
            out.append((('while', 'b', 0), (kind, f'e{e}', 99)))
    return out


def sequence_programs(all_pairs=False, seed=0):
    """two constructs one after the other at the same depth (loop bookkeeping of the first must not leak into the second)"""
    leaves = list(skel.leaf_combos()) + [(k, 'u', 0) for k in skel.LOOP_KINDS]
    pairs = [(a, b) for a in leaves for b in leaves]
    if not all_pairs:
        rng = random.Random(seed)
        loops = [(a, b) for a, b in pairs if a[0] in skel.LOOP_KINDS and b[0] in skel.LOOP_KINDS]
        rng.shuffle(loops)
        rng.shuffle(pairs)
        pairs = loops[:10] + pairs[:6]
    out = {}
    for a, b2 in pairs:
        for scope in ('global', 'function'):
            b = skel.Builder()
            core = [b.log(), b.construct(a[0], a[1], [], 0), b.log(), b.construct(b2[0], b2[1], [], 0), b.log()]
            if scope == 'function':
                prog = [('func', 'ff', [], core + [('ret', 77)]), ('log', 900), ('setcall', 'rr', 'ff', []), ('logv', 'rr')]
            else:
                prog = core
            out[f'seq_{skel.spec_name((a,))}_{skel.spec_name((b2,))}_{scope[0]}'] = (prog, b.arr)
    return out


def multi_function_programs():
    """2-3 function scripts: constructs before/after function definitions, functions calling each other in loops."""
    progs = {}
    b = skel.Builder()
    for n1, s1 in (('if', ('if', 'n', 0)), ('whilebc', ('while', 'bc', 0)), ('forixb', ('forix', 'b', 0))):
        for n2, s2 in (('none', None), ('if', ('ifelse', 'n', 0)), ('while', ('while', 'b', 0))):
            for n3, s3 in (('ifelifelse', ('ifelifelse', 'n', 0)), ('whilec', ('while', 'c', 0)), ('forc', ('for', 'c', 0))):
                b = skel.Builder()
                c1 = b.construct(s1[0], s1[1], [], 0)
                fbody = [b.log()] + ([b.construct(s2[0], s2[1], [], 0)] if s2 else []) + [('ret', 7)]
                c3 = b.construct(s3[0], s3[1], [('call', 'gg', [])], 0)
                prog = [b.log(), c1, ('func', 'gg', [], fbody), c3, ('setcall', 'r1', 'gg', []), ('logv', 'r1')]
                progs[f'{n1}_{n2}_{n3}'] = (prog, b.arr)
    # a function defined inside an open global block, with its own loop and break/continue (label stack floor of the function)
    for oname, outer in (('while', ('while', 'b', 0)), ('if', ('ifelse', 'n', 0)), ('for', ('for', 'c', 0))):
        for iname, inner in (('whilebc', ('while', 'bc', 0)), ('forixb', ('forix', 'b', 0)), ('forc', ('for', 'c', 0))):
            b = skel.Builder()
            fbody = [b.log(), b.construct(inner[0], inner[1], [], 0), ('ret', 8)]
            oc = b.construct(outer[0], outer[1], [('func', 'gg', [], fbody), ('setcall', 'r2', 'gg', [])], 0)
            progs[f'defin_{oname}_{iname}'] = ([b.log(), oc, ('logv', 'r2'), b.log()], b.arr)
    # mutual calls with parameters and a loop in the callee
    b = skel.Builder()
    f1 = ('func', 'f1', ['a'], [('logv', 'a'), b.construct('while', 'b', [('setcall', 'x', 'f2', [3])], 0), ('logv', 'x'), ('ret', 1)])
    f2 = ('func', 'f2', ['q'], [('logv', 'q'), b.construct('ifelif', 'n', [('ret', 9)], 1), ('log', 50)])
    progs['mutual'] = ([('set', 'x', 4), f1, f2, ('setcall', 'y', 'f1', [2]), ('logv', 'y'), ('logv', 'x')], b.arr)
    return progs


def plan(tier, seed, workdir, prop='C01'):
    import bare_script.parser as ps
    import bare_script.runtime as rt
    p = Plan(prop, 'translation_validation')
    p.encode(ps.parse_script, rt.execute_script, rt._execute_script_helper, rt._script_function)
    rng = random.Random(seed)
    maxbits = 5 if tier == 'quick' else 6
    timeout = 45 if tier == 'quick' else 60
    n = 0
    specs = []
    specs.extend(skel.shape_specs(1))
    d2 = list(skel.shape_specs(2))
    if tier == 'quick':
        rng.shuffle(d2)
        d2 = sorted(d2[:64])      # seeded sample of the 320 depth-2 shapes; thorough takes all of them
    specs.extend(d2)
    if tier == 'thorough':
        d3 = list(skel.shape_specs(3))
        rng.shuffle(d3)
        specs.extend(d3[:200])
    for i, spec in enumerate(specs):
        scopes = ['global', 'function'] if (len(spec) == 1 or tier == 'thorough') else (['global'] if i % 2 == 0 else ['function'])
        for scope in scopes:
            prog, narr = skel.build(spec, scope)
            add_shape(p, workdir, f'{skel.spec_name(spec)}_{scope[0]}', prog, narr, maxbits, timeout, 'shape')
            n += 1
    for spec in special_specs():
        for scope in ('global', 'function'):
            prog, narr = skel.build(spec, scope)
            add_shape(p, workdir, f'{skel.spec_name(spec)}_{scope[0]}', prog, narr, maxbits, timeout, 'special')
            n += 1
    for name, (prog, narr) in multi_function_programs().items():
        add_shape(p, workdir, name, prog, narr, maxbits, timeout, 'multi')
        n += 1
    for name, (prog, narr) in sequence_programs(tier == 'thorough', seed).items():
        add_shape(p, workdir, name, prog, narr, maxbits, timeout, 'sequence')
        n += 1
    # value family: the nine value types as conditions, truthiness decided by the real value_boolean
    vspecs = [s for s in list(skel.shape_specs(1)) + list(skel.shape_specs(2))
              if all(k in skel.IF_KINDS or 'b' in f for k, f, _ in s)]
    if tier == 'quick':
        vspecs = [s for s in vspecs if len(s) == 1] + rng.sample([s for s in vspecs if len(s) == 2], 12)
    for spec in vspecs:
        prog, narr = skel.build(spec, 'global')
        prog = _vvify(prog, [0])
        add_shape(p, workdir, f'{skel.spec_name(spec)}', prog, narr, 4, timeout, 'value')
        n += 1
    # condition forms other than a bare call: !c, (c), -x, !-x, c && c, c || -x, !(c && c)
    for form in ('not', 'grp', 'neg', 'notneg', 'and', 'or', 'notgrp'):
        for spec in [s for s in skel.shape_specs(1) if s[0][1] in ('n', 'b') and (tier == 'thorough' or s[0][0] in ('if', 'ifelifelse', 'while', 'forix'))]:
            for scope in ('global',) if tier == 'quick' else ('global', 'function'):
                prog, narr = skel.build(spec, scope)
                add_shape(p, workdir, f'{form}_{skel.spec_name(spec)}_{scope[0]}', _condform(prog, form), narr, maxbits, timeout, 'condform')
                n += 1
    p.extra_coverage['programs'] = n
    p.rule = ('programs = nesting shapes of {if,if-else,if-elif,if-elif-else,while,for,for-with-index} x {no,break,continue,both} '
              'enumerated by the generator; per program one CrossHair condition over symbolic oracle bits / array lengths / '
              'pool indices; non-trivial = reachability twin refuted and verdict decided')
    p.bounds = [f'oracle draws <= {maxbits} (a run that needs more ends both sides with "oracle exhausted", compared too)',
                'array lengths 0..2', ('depth 1 exhaustively + 64 seeded depth-2 shapes of 320 (alternating scope)' if tier == 'quick' else 'depth <= 2 exhaustively, both scopes')
                + ('; 200 seeded depth-3 shapes' if tier == 'thorough' else ''),
                'value family: conditions draw from a 19-element pool of all nine value types', 'maxStatements 300 backstop (legitimate runs within the oracle bound need < 200 statements)']
    p.stubs = ['ValueArgsError message formatting', 'host functions cc/tt/aa/vv']
    p.outside = ['depth > 3; depth 3 only sampled (thorough)', 'programs using jump/label directly (C08)', 'expression semantics (C03)']
    p.assumptions = ['the big-step reference vf/gen/skel.py:Ref is the structured reading', 'CrossHair/z3',
                     'after a for loop the index variable holds the value the documented lowering leaves (length on normal exit)']
    p.samples = [{'shape': t['id'], 'source': p.meta[t['id']].get('source')} for t in p.tasks[:400:80] if not t.get('twin_of')]
    return p
