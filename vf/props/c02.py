"""
C02 expression text parses to the tree the precedence rules dictate; malformed text is rejected.

The parser only ever sees concrete text (symbolic strings cannot get through its regexes), so apart from the table lemma
this is solver-driven exhaustive enumeration, stated as such:
  E2  z3: with op1, op2 symbolic over the 14 operators, the live BINARY_REORDER relation is exactly "op2 binds looser than op1"
      (and every entry names a real operator); a sat model is rendered to a two-operator chain and replayed.
  E1  CrossHair chooses operator chains (k <= 2 quick / 3 thorough, all 14^k) and operand-form patterns; each path parses one
      text with the real parse_expression and compares with a precedence-climbing parser over the token list; token-soup
      sequences (<= 3 tokens over a 15-token vocabulary) must be accepted/rejected as an LL(1) recogniser of the grammar says,
      rejections only with BareScriptParserError.
"""
from ..engine import Plan
from .. import hgen

OPS = ['**', '*', '/', '%', '+', '-', '<=', '<', '>=', '>', '==', '!=', '&&', '||']
LEVEL = {'**': 7, '*': 6, '/': 6, '%': 6, '+': 5, '-': 5, '<=': 4, '<': 4, '>=': 4, '>': 4, '==': 3, '!=': 3, '&&': 2, '||': 1}


def spec_tree(operands, ops):
    """precedence climbing over (operand trees, operator list): higher level binds tighter, equal levels associate left"""
    def climb(pos, min_level):
        left = operands[pos]
        pos += 1
        while pos - 1 < len(ops) and LEVEL[ops[pos - 1]] >= min_level:
            op = ops[pos - 1]
            right, pos = climb(pos, LEVEL[op] + 1)
            left = {'binary': {'op': op, 'left': left, 'right': right}}
        return left, pos
    tree, _ = climb(0, 1)
    return tree


def replay_pair(op1, op2):
    from bare_script import parse_expression
    text = f'aa {op2} bb {op1} cc'
    a, b, c = {'variable': 'aa'}, {'variable': 'bb'}, {'variable': 'cc'}
    want = spec_tree([a, b, c], [op2, op1])
    got = parse_expression(text)
    return got == want, {'clause': 'two-operator chain does not parse to the tree the precedence levels dictate', 'text': text, 'parsed': repr(got)[:300],
                         'expected': repr(want)[:300]}


def lemma_table():
    import z3
    import bare_script.parser as P
    table = P.BINARY_REORDER
    if set(table) != set(OPS) or any(not set(v) <= set(OPS) for v in table.values()):
        bad = sorted(set(table) ^ set(OPS)) + sorted(x for v in table.values() for x in v if x not in OPS)
        for op in OPS:
            ok, info = replay_pair(op, OPS[0])
            if not ok:
                return {'state': 'violation', 'detail': info, 'replay': {'module': 'vf.props.c02', 'fn': 'replay_pair', 'kwargs': {'op1': op, 'op2': OPS[0]}}}
        return {'state': 'skipped', 'why': f'BINARY_REORDER no longer ranges over the 14 operators ({bad[:4]}): structure changed'}
    o1, o2 = z3.Int('o1'), z3.Int('o2')
    lvl = lambda o: z3.Sum([z3.If(o == i, LEVEL[op], 0) for i, op in enumerate(OPS)])
    live = z3.Or(*[z3.And(o1 == i, o2 == j) for i, a in enumerate(OPS) for j, b in enumerate(OPS) if b in table[a]] or [z3.BoolVal(False)])
    sol = z3.Solver()
    sol.add(o1 >= 0, o1 < 14, o2 >= 0, o2 < 14, z3.Xor(live, lvl(o2) < lvl(o1)))
    while True:
        r = str(sol.check())
        if r == 'unsat':
            return {'state': 'unsat', 'lemma': 'BINARY_REORDER[op1] contains op2  <=>  level(op2) < level(op1), for all 196 operator pairs'}
        if r != 'sat':
            return {'state': 'inconclusive', 'why': r}
        m = sol.model()
        a, b = OPS[m[o1].as_long()], OPS[m[o2].as_long()]
        ok, info = replay_pair(a, b)
        if not ok:
            return {'state': 'violation', 'detail': info, 'replay': {'module': 'vf.props.c02', 'fn': 'replay_pair', 'kwargs': {'op1': a, 'op2': b}}}
        sol.add(z3.Not(z3.And(o1 == m[o1], o2 == m[o2])))


def replay_literal(text):
    from bare_script import parse_expression
    from bare_script.parser import BareScriptParserError
    try:
        parse_expression(text)
    except BareScriptParserError:
        return True, {}
    except Exception as exc:  # pylint: disable=broad-exception-caught
        return False, {'clause': 'malformed numeric text is not rejected with a parser error', 'text': text, 'exception': f'{type(exc).__name__}: {exc}'}
    return True, {}


def lemma_number_literal():
    """every text the live numeric-literal regex accepts is a well-formed float literal (else float() raises a host ValueError)"""
    import z3
    import bare_script.parser as P
    from .. import rx2z3 as R
    rx = R.Rx(P._R_EXPR_NUMBER, ascii_only=True)
    num = rx.group(1)
    d = R.re_range(0x30, 0x39)
    lit = lambda s: z3.Re(z3.StringVal(s))
    sign = z3.Option(R.union([lit('+'), lit('-')]))
    floatlit = z3.Concat(sign, R.union([z3.Concat(z3.Plus(d), z3.Option(z3.Concat(lit('.'), z3.Star(d)))), z3.Concat(lit('.'), z3.Plus(d))]),
                         z3.Option(z3.Concat(R.union([lit('e'), lit('E')]), sign, z3.Plus(d))))
    T = z3.String('T')
    sol = z3.Solver()
    sol.set('timeout', 120000)
    sol.add(z3.InRe(T, num), z3.Not(z3.InRe(T, floatlit)), z3.Length(T) <= 12)
    for _ in range(6):
        r = str(sol.check())
        if r == 'unsat':
            return {'state': 'unsat', 'lemma': 'L(numeric literal regex) is within the float-literal language (|T| <= 12)'}
        if r != 'sat':
            return {'state': 'inconclusive', 'why': r}
        text = R.py_str(R.model_str(sol.model(), T))
        ok, info = replay_literal(text)
        if not ok:
            return {'state': 'violation', 'detail': info, 'replay': {'module': 'vf.props.c02', 'fn': 'replay_literal', 'kwargs': {'text': text}}}
        sol.add(T != R.strval(text))
    return {'state': 'inconclusive', 'why': 'regex-level witnesses are all handled with a parser error'}


CORE = '''
from bare_script import parse_expression
from bare_script.parser import BareScriptParserError
from vf.props.c02 import OPS, spec_tree

FIRST = {first}
K = {k}
FORMS = [('aa', {{'variable': 'aa'}}), ('1', {{'number': 1.0}}), ('(bb + 2)', {{'group': {{'binary': {{'op': '+', 'left': {{'variable': 'bb'}}, 'right': {{'number': 2.0}}}}}}}}),
         ('-cc', {{'unary': {{'op': '-', 'expr': {{'variable': 'cc'}}}}}}), ('!dd', {{'unary': {{'op': '!', 'expr': {{'variable': 'dd'}}}}}}),
         ('ff(ee, 3)', {{'function': {{'name': 'ff', 'args': [{{'variable': 'ee'}}, {{'number': 3.0}}]}}}}),
         ("'s'", {{'string': 's'}}), ('[x y]', {{'variable': 'x y'}}),
         ('!-gg', {{'unary': {{'op': '!', 'expr': {{'unary': {{'op': '-', 'expr': {{'variable': 'gg'}}}}}}}}}}),
         ('-!gg', {{'unary': {{'op': '-', 'expr': {{'unary': {{'op': '!', 'expr': {{'variable': 'gg'}}}}}}}}}}),
         ('- -gg', {{'unary': {{'op': '-', 'expr': {{'unary': {{'op': '-', 'expr': {{'variable': 'gg'}}}}}}}}}}),
         ('!(-gg)', {{'unary': {{'op': '!', 'expr': {{'group': {{'unary': {{'op': '-', 'expr': {{'variable': 'gg'}}}}}}}}}}}}),
         ('ff(!-1, -(2))', {{'function': {{'name': 'ff', 'args': [{{'unary': {{'op': '!', 'expr': {{'unary': {{'op': '-', 'expr': {{'number': 1.0}}}}}}}}}},
                                                              {{'unary': {{'op': '-', 'expr': {{'group': {{'number': 2.0}}}}}}}}]}}}})]


def _pick(seq, i):
    for j in range(len(seq)):
        if i == j:
            return seq[j]
    return seq[0]


def core_chain(o2, o3, fpos, form, tight):
    ops = [OPS[FIRST]] + ([_pick(OPS, o2)] if K >= 2 else []) + ([_pick(OPS, o3)] if K >= 3 else [])
    operands = [FORMS[0]] * (K + 1)
    special = _pick(FORMS, form)
    operands = [special if j == fpos else (('v' + str(j) + 'x', {{'variable': 'v' + str(j) + 'x'}})) for j in range(K + 1)]
    sep = '' if tight else ' '
    text = operands[0][0]
    for j, op in enumerate(ops):
        text += sep + op + sep + operands[j + 1][0]
    if tight and ('--' in text or '-!' in text and False):
        return True, {{}}
    want = spec_tree([t for _s, t in operands], ops)
    try:
        got = parse_expression(text)
    except BareScriptParserError as exc:
        return False, {{'clause': 'well-formed expression rejected', 'text': text, 'error': exc.error}}
    if got != want:
        return False, {{'clause': 'parse tree differs from the tree the precedence levels dictate', 'text': text, 'parsed': repr(got)[:300], 'expected': repr(want)[:300]}}
    return True, {{}}


def core_chain4(o2, o3, o4):
    # four-operator chains over plain identifiers (the right-spine re-ordering needs >= 4 operators to go wrong in some ways)
    ops = [OPS[FIRST], _pick(OPS, o2), _pick(OPS, o3), _pick(OPS, o4)]
    names = ['aa', 'bb', 'cc', 'dd', 'ee']
    text = names[0]
    for j, op in enumerate(ops):
        text += ' ' + op + ' ' + names[j + 1]
    want = spec_tree([{{'variable': n}} for n in names], ops)
    try:
        got = parse_expression(text)
    except BareScriptParserError as exc:
        return False, {{'clause': 'well-formed expression rejected', 'text': text, 'error': exc.error}}
    if got != want:
        return False, {{'clause': 'parse tree differs from the tree the precedence levels dictate', 'text': text, 'parsed': repr(got)[:400], 'expected': repr(want)[:400]}}
    return True, {{}}


TOKENS = ['aa', '1', '+', '*', '(', ')', ',', 'ff(', '!', '-', '=', "'s'", '&&', '==', '@', '2e', '1.5e-']
BIN = ('+', '*', '-', '&&', '==')


def _recognise(toks):
    """LL(1) recogniser of the expression grammar over the token list (NAME followed by '(' is a call)"""
    pos = [0]

    def peek():
        return toks[pos[0]] if pos[0] < len(toks) else None

    def unary():
        t = peek()
        if t is None:
            return False
        if t == '(':
            pos[0] += 1
            if not expr():
                return False
            if peek() != ')':
                return False
            pos[0] += 1
            return True
        if t in ('!', '-'):
            pos[0] += 1
            return unary()
        if t == 'ff(' or (t == 'aa' and pos[0] + 1 < len(toks) and toks[pos[0] + 1] == '('):
            pos[0] += 1 if t == 'ff(' else 2
            if peek() == ')':
                pos[0] += 1
                return True
            while True:
                if not expr():
                    return False
                if peek() == ')':
                    pos[0] += 1
                    return True
                if peek() != ',':
                    return False
                pos[0] += 1
        if t in ('aa', '1', "'s'"):      # '2e' / '1.5e-' are not tokens of the grammar: rejected
            pos[0] += 1
            return True
        return False

    def expr():
        if not unary():
            return False
        while peek() in BIN:
            pos[0] += 1
            if not unary():
                return False
        return True
    return expr() and pos[0] == len(toks)


CALLTOK = ['ff(', 'aa', ',', ')', '1', '(']


def core_callsoup(t1, t2, t3, t4, n):
    # call punctuation needs four or five tokens to go wrong (trailing / doubled / leading commas, unbalanced parentheses)
    toks = ['ff('] + [_pick(CALLTOK, t) for t in (t1, t2, t3, t4)]
    toks = toks[:n + 1]
    text = ' '.join(toks)
    want = _recognise(toks)
    try:
        parse_expression(text)
        got = True
    except BareScriptParserError:
        got = False
    except Exception as exc:
        return False, {{'clause': 'exception other than BareScriptParserError', 'text': text, 'exception': type(exc).__name__}}
    if got != want:
        return False, {{'clause': 'accepted although malformed' if got else 'rejected although well-formed', 'text': text, 'tokens': toks}}
    return True, {{}}


def core_soup(t2, t3, n):
    toks = [TOKENS[FIRST], _pick(TOKENS, t2), _pick(TOKENS, t3)]
    toks = toks if n == 3 else (toks[:2] if n == 2 else toks[:1])
    text = ' '.join(toks)
    want = _recognise(toks)
    try:
        parse_expression(text)
        got = True
    except BareScriptParserError:
        got = False
    except Exception as exc:
        return False, {{'clause': 'exception other than BareScriptParserError', 'text': text, 'exception': type(exc).__name__ + ': ' + str(exc)[:80]}}
    if got != want:
        return False, {{'clause': 'accepted although malformed' if got else 'rejected although well-formed', 'text': text, 'tokens': toks}}
    return True, {{}}
'''


def plan(tier, seed, workdir):
    import bare_script.parser as ps
    p = Plan('C02', 'exploration')
    p.encode(ps.parse_expression, ps._parse_binary_expression, ps._parse_unary_expression)
    p.functions_encoded.append({'name': 'bare_script.parser.BINARY_REORDER', 'value': {k: sorted(v) for k, v in ps.BINARY_REORDER.items()}})
    p.add({'kind': 'lemma', 'id': 'lemma_table', 'module': 'vf.props.c02', 'fn': 'lemma_table', 'kwargs': {}, 'timeout': 300, 'est': 5},
          family='E2 precedence table == level order')
    p.add({'kind': 'lemma', 'id': 'lemma_number_literal', 'module': 'vf.props.c02', 'fn': 'lemma_number_literal', 'kwargs': {}, 'timeout': 300, 'est': 5},
          family='E2 numeric literal regex within the float-literal language (rejection with a parser error, not a host ValueError)')
    timeout = 150 if tier == 'quick' else 900
    kmax = 2 if tier == 'quick' else 3
    for k in range(1, kmax + 1):
        for first in range(14):
            body = CORE.format(first=first, k=k)
            pre = ['0 <= o2 < 14' if k >= 2 else 'o2 == 0', '0 <= o3 < 14' if k >= 3 else 'o3 == 0', f'0 <= fpos <= {k}', '0 <= form < 13']
            body += hgen.harness('chain', 'o2: int, o3: int, fpos: int, form: int, tight: bool', pre, core_call='core_chain(o2, o3, fpos, form, tight)')
            path = hgen.write_module(workdir, f'c02_chain_k{k}_{first:02d}', body, stub=False)
            hgen.ch_tasks(p, path, 'chain', timeout, twin_timeout=60, est=40 if k < 3 else 300, family=f'E1 operator chains k={k}', first_operator=ps and
                          ['**', '*', '/', '%', '+', '-', '<=', '<', '>=', '>', '==', '!=', '&&', '||'][first])
    import random
    firsts4 = list(range(14))
    if tier == 'quick':
        random.Random(seed).shuffle(firsts4)
        firsts4 = sorted(firsts4[:5])          # quick: 5 seeded shards (by first operator) of the 14; thorough: all 14^4 chains
    for first in firsts4:
        body = CORE.format(first=first, k=4)
        body += hgen.harness('chain4', 'o2: int, o3: int, o4: int', ['0 <= o2 < 14', '0 <= o3 < 14', '0 <= o4 < 14'], core_call='core_chain4(o2, o3, o4)')
        path = hgen.write_module(workdir, f'c02_chain4_{first:02d}', body, stub=False)
        hgen.ch_tasks(p, path, 'chain4', timeout * 2, twin_timeout=60, est=60, family='E1 four-operator chains over identifiers (all 14^4)', first_operator=first)
    for first in range(17):
        body = CORE.format(first=first, k=1)
        body += hgen.harness('soup', 't2: int, t3: int, n: int', ['0 <= t2 < 17', '0 <= t3 < 17', '1 <= n <= 3'], core_call='core_soup(t2, t3, n)')
        path = hgen.write_module(workdir, f'c02_soup_{first:02d}', body, stub=False)
        hgen.ch_tasks(p, path, 'soup', timeout, twin_timeout=60, est=30, family='E1 token soup accept/reject', first_token=first)
    body = CORE.format(first=0, k=1)
    body += hgen.harness('callsoup', 't1: int, t2: int, t3: int, t4: int, n: int', ['0 <= t1 < 6', '0 <= t2 < 6', '0 <= t3 < 6', '0 <= t4 < 6', '1 <= n <= 4'],
                         core_call='core_callsoup(t1, t2, t3, t4, n)')
    path = hgen.write_module(workdir, 'c02_callsoup', body, stub=False)
    hgen.ch_tasks(p, path, 'callsoup', 100 if tier == 'quick' else timeout, twin_timeout=60, est=100, family='E1 call punctuation soup (<= 5 tokens)',
                  enum={'t1': list(range(6)), 't2': list(range(6)), 't3': list(range(6)), 't4': list(range(6)), 'n': [1, 2, 3, 4]})
    p.rule = ('1 z3 lemma over the live precedence table (196 pairs, symbolic operators); CrossHair conditions sharded by first operator / first '
              'token: all operator chains up to k, one operand of each chain replaced by each of 8 forms at each position, with and without blanks')
    p.bounds = [f'operator chains k <= {kmax} exhaustively (14^k) with operand forms; four-operator chains over identifiers: all 14^4 (thorough) / 5 of 14 first-operator shards (quick, seeded)', 'operand forms: identifier, number, group, unary -, unary !, stacked unaries (!-x, -!x, - -x, !(-x)), call (also with unary arguments), string, bracketed name',
                'token soup: <= 3 tokens over 15 tokens']
    p.stubs = []
    p.outside = ['chains of length >= 5; length 4 with non-identifier operands', 'random depth-8 expressions and arbitrary token strings (symbolic text cannot reach the parser)',
                 'numeric literal spellings (C13)']
    p.assumptions = ['precedence-climbing reference and LL(1) recogniser in vf/props/c02.py', 'z3', 'CrossHair (enumeration only)']
    p.samples = [{'text': 'v0x + v1x * (bb + 2)', 'expected': 'binary(+, v0x, binary(*, v1x, group))'}, {'soup': ['aa', '=', 'aa'], 'expected': 'reject'}]
    return p
