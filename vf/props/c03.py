"""
C03 expression evaluation follows the typed operator semantics.

(a) operator matrix: per ordered pair of operand kinds one CrossHair condition evaluating all 14 binary operators and the two
    unary ones on typed symbolic operands against the specification vf/hlib/c03spec.py;
(b) order / once / laziness: expression shapes whose leaves are effect-logging host calls returning symbolic values;
(c) aliases: every spreadsheet-style built-in equals the library function it is documented to alias on symbolic arguments,
    and is undefined when built-ins are off.
"""
import random

from ..engine import Plan
from .. import hgen
from ..hlib import c03spec, libinfo
from . import c05

OPS = ['+', '-', '*', '/', '%', '**', '==', '!=', '<', '<=', '>', '>=', '&&', '||']
KINDS = ['int', 'str', 'null', 'float', 'dt', 'other', 'bool']
PT = {'int': 'int', 'bool': 'bool', 'str': 'str', 'null': 'int', 'float': 'int', 'dt': 'int', 'other': 'int'}

CORE_OP = '''
import datetime, re
from bare_script import parse_expression, evaluate_expression
from bare_script.runtime import BareScriptRuntimeError
from vf.hlib import c03spec

KA, KB = {ka!r}, {kb!r}
OPS = {ops!r}
EXPRS = dict((op, parse_expression('aa ' + op + ' bb')) for op in OPS)
NEG, NOT = parse_expression('-aa'), parse_expression('!aa')
FLOATS = [0.5, -0.0, 1e15, 2.0 ** 53, -2.5, 3.0, 0.0]
D0 = datetime.datetime(2024, 1, 2, 3, 4, 5, 123000)
DTS = [D0, datetime.date(2024, 1, 2), datetime.datetime(2023, 12, 31, 23, 59, 59, 999000)] + \
    [D0 + datetime.timedelta(milliseconds=ms) for ms in (1001, 2030, -1003)]
OTHERS = [[], [1, 'a'], {{}}, {{'a': 1}}, len, re.compile('a'), [None], ['id', 7], ['id', 'n/a'], {{'a': 'x'}}, [3], [1, 2], [1, 2, 3], {{'a': 1, 'b': 0}}]


def _pick(pool, i):
    for j in range(len(pool)):
        if i == j:
            return pool[j]
    return pool[0]


def _val(kind, x):
    if kind == 'float':
        return _pick(FLOATS, x)
    if kind == 'dt':
        return _pick(DTS, x)
    if kind == 'other':
        return _pick(OTHERS, x)
    if kind == 'null':
        return None
    return x


def core_ops(a, b):
    va, vb = _val(KA, a), _val(KB, b)
    g = {{'aa': va, 'bb': vb}}
    for op in OPS:
        if ('bool' in (KA, KB)) and op in ('+', '-', '*', '/', '%', '**') and not (op == '+' and 'str' in (KA, KB)):
            continue            # bool operands of arithmetic operators: outside the claim (see DESIGN)
        try:
            got = evaluate_expression(EXPRS[op], {{'globals': g}})
        except BareScriptRuntimeError as exc:
            return False, {{'clause': 'operator raised', 'op': op, 'aa': repr(va), 'bb': repr(vb), 'error': str(exc)[:80]}}
        want = c03spec.binop(op, va, vb)
        if op in ('&&', '||'):
            ok = got is want
        else:
            ok = c03spec.same(got, want)
        if not ok:
            return False, {{'clause': 'operator result differs from the typed operator semantics', 'op': op, 'aa': repr(va), 'bb': repr(vb),
                           'result': repr(got)[:80], 'expected': repr(want)[:80]}}
    if KB == 'int':
        got = evaluate_expression(NEG, {{'globals': g}})
        want = (-va) if c03spec.is_num(va) else None
        if KA != 'bool' and not c03spec.same(got, want):
            return False, {{'clause': 'unary minus', 'aa': repr(va), 'result': repr(got), 'expected': repr(want)}}
        got = evaluate_expression(NOT, {{'globals': g}})
        if got is not (not c03spec.truthy(va)):
            return False, {{'clause': 'unary not', 'aa': repr(va), 'result': repr(got)}}
    return True, {{}}
'''

CORE_ORD = '''
import datetime, re
from bare_script import parse_expression, evaluate_expression
from bare_script.runtime import BareScriptRuntimeError
from vf.hlib import c03spec

TREE = {tree!r}
NLEAF = {nleaf}
MODE = {mode!r}
TEXT = c03spec.render(TREE)
EXPR = parse_expression(TEXT)
POOL = [None, False, 0, '', [], {{}}, 'a', [0], 1, {{'a': 1}}, 0.0, True]


def _leafval(vals, k):
    v = vals[k]
    if MODE == 'int':
        return v
    # 'pool' / 'poolarith': leaves of every type, so that operators see unsupported operand kinds with effectful siblings
    for j in range(len(POOL)):
        if v == j:
            return POOL[j]
    return None


def core_order(vals):
    log_real, log_ref = [], []

    def ee(args, options):
        k = int(args[0])
        log_real.append(k)
        return _leafval(vals, k)

    def hh(args, options):
        log_real.append(('hh', len(args)))
        return args[0] if args else None
    try:
        got = evaluate_expression(EXPR, {{'globals': {{'ee': ee, 'hh': hh}}}})
    except BareScriptRuntimeError as exc:
        got = ('undefined',) if str(exc).startswith('Undefined function') else ('error', str(exc))
    try:
        want = c03spec.evaluate(TREE, lambda k: _leafval(vals, k), log_ref)
    except c03spec.UndefinedFunction:
        want = ('undefined',)
    if log_real != log_ref:
        return False, {{'clause': 'operands are not evaluated left to right, once, lazily', 'expr': TEXT, 'log': repr(log_real), 'expected_log': repr(log_ref)}}
    ok = (got is want) if isinstance(want, (list, dict)) else (got == want if isinstance(want, tuple) or isinstance(got, tuple) else c03spec.same(got, want))
    if not ok:
        return False, {{'clause': 'expression value differs from the reference evaluation', 'expr': TEXT, 'result': repr(got)[:80], 'expected': repr(want)[:80]}}
    return True, {{}}
'''

ALIASES = {
    'abs': 'mathAbs', 'acos': 'mathAcos', 'asin': 'mathAsin', 'atan': 'mathAtan', 'atan2': 'mathAtan2', 'ceil': 'mathCeil',
    'charCodeAt': 'stringCharCodeAt', 'cos': 'mathCos', 'date': 'datetimeNew', 'day': 'datetimeDay', 'endsWith': 'stringEndsWith',
    'indexOf': 'stringIndexOf', 'fixed': 'numberToFixed', 'floor': 'mathFloor', 'fromCharCode': 'stringFromCharCode', 'hour': 'datetimeHour',
    'lastIndexOf': 'stringLastIndexOf', 'len': 'stringLength', 'lower': 'stringLower', 'ln': 'mathLn', 'log': 'mathLog', 'max': 'mathMax',
    'min': 'mathMin', 'millisecond': 'datetimeMillisecond', 'minute': 'datetimeMinute', 'month': 'datetimeMonth', 'parseInt': 'numberParseInt',
    'parseFloat': 'numberParseFloat', 'pi': 'mathPi', 'replace': 'stringReplace', 'rept': 'stringRepeat', 'round': 'mathRound',
    'second': 'datetimeSecond', 'sign': 'mathSign', 'sin': 'mathSin', 'slice': 'stringSlice', 'sqrt': 'mathSqrt', 'startsWith': 'stringStartsWith',
    'text': 'stringNew', 'tan': 'mathTan', 'trim': 'stringTrim', 'upper': 'stringUpper', 'year': 'datetimeYear',
}      # documented alias table (clock/random aliases now/today/rand excluded)

CORE_ALIAS = '''
import datetime
from bare_script import evaluate_expression
from bare_script.runtime import BareScriptRuntimeError
from bare_script.library import SCRIPT_FUNCTIONS
from vf.hlib import c03spec

ALIAS, TARGET = {alias!r}, {target!r}
SPEC = {spec!r}
CONC = {{'num': 1, 'str': 'a', 'dt': datetime.datetime(2024, 1, 2, 3, 4, 5, 6000), 'true': True}}


def core_alias(i, i2, s, b):
    args = []
    for a in SPEC:
        if a[0] == 'c':
            args.append(CONC[a[1]])
        elif a[0] == 'i':
            args.append(i)
        elif a[0] == 'i2':
            args.append(i2)
        elif a[0] == 's':
            args.append(s)
        elif a[0] == 'b':
            args.append(b)
        else:
            args.append(i)
    expr = {{'function': {{'name': ALIAS, 'args': [{{'variable': 'a' + str(k)}} for k in range(len(args))]}}}}
    g = dict(('a' + str(k), v) for k, v in enumerate(args))
    got = evaluate_expression(expr, {{'globals': g}})                    # built-ins on
    g2 = dict(g)
    g2[TARGET] = SCRIPT_FUNCTIONS[TARGET]
    expr2 = {{'function': {{'name': TARGET, 'args': expr['function']['args']}}}}
    want = evaluate_expression(expr2, {{'globals': g2}}, None, False)
    if not c03spec.same(got, want):
        return False, {{'clause': 'built-in does not behave as the library function it aliases', 'alias': ALIAS, 'target': TARGET,
                       'args': repr(args)[:100], 'result': repr(got)[:80], 'expected': repr(want)[:80]}}
    try:
        evaluate_expression(expr, {{'globals': g}}, None, False)
    except BareScriptRuntimeError:
        return True, {{}}
    return False, {{'clause': 'built-in must be undefined when built-ins are off', 'alias': ALIAS}}
'''


def _pre(kind, name):
    return {'str': [f'len({name}) <= 2'], 'null': [f'{name} == 0'], 'float': [f'0 <= {name} < 7'], 'dt': [f'0 <= {name} < 6'],
            'other': [f'0 <= {name} < 14']}.get(kind, [])


def plan(tier, seed, workdir):
    import bare_script.runtime as rt
    import bare_script.value as V
    import bare_script.library as L
    p = Plan('C03', 'exploration')
    p.encode(rt.evaluate_expression, V.value_boolean, V.value_string, V.value_compare)
    rng = random.Random(seed)
    timeout = 60 if tier == 'quick' else 400
    for ka in KINDS:
        for kb in KINDS:
            ops = OPS
            if 'int' in (ka, kb):
                ops = [o for o in OPS if o != '**']        # int ** symbolic int: non-linear / huge; covered by C05's bounded condition
            body = CORE_OP.format(ka=ka, kb=kb, ops=ops)
            pre = _pre(ka, 'a') + _pre(kb, 'b')
            body += hgen.harness('ops', f'a: {PT[ka]}, b: {PT[kb]}', pre, core_call='core_ops(a, b)')
            path = hgen.write_module(workdir, f'c03_op_{ka}_{kb}', body)
            sizes = {'float': 7, 'dt': 6, 'other': 14, 'null': 1}
            dom = {'a': list(range(sizes[ka])), 'b': list(range(sizes[kb]))} if ka in sizes and kb in sizes else None
            hgen.ch_tasks(p, path, 'ops', timeout, family='operator matrix', kinds=[ka, kb], enum=dom)
    arith = c03spec.shapes(['+', '*', '<', '==', '-'], 2)
    logic = c03spec.shapes(['&&', '||'], 2)
    rng.shuffle(arith)
    rng.shuffle(logic)
    na, nl = (30, 40) if tier == 'quick' else (300, 400)
    arith = [t for t in arith if 2 <= t[1] <= 4][:na]
    logic = [t for t in logic if 2 <= t[1] <= (3 if tier == 'quick' else 4)][:nl]
    mixed = c03spec.shapes(['*', '/', '%', '-', '+'], 2)
    rng.shuffle(mixed)
    mixed = [t for t in mixed if 2 <= t[1] <= 3][:(20 if tier == 'quick' else 200)]
    for mode, trees in (('int', arith), ('pool', logic), ('poolarith', mixed)):
        for n, (tree, nleaf) in enumerate(trees):
            body = CORE_ORD.format(tree=tree, nleaf=nleaf, mode=mode)
            pre = [f'len(vals) == {nleaf}'] + ([f'all(0 <= v < 12 for v in vals)'] if mode != 'int' else [])
            body += hgen.harness('order', 'vals: List[int]', pre, core_call='core_order(vals)')
            path = hgen.write_module(workdir, f'c03_ord_{mode}_{n:03d}', body)
            import itertools
            dom = {'vals': [list(c) for c in itertools.product(range(12), repeat=nleaf)]} if (mode != 'int' and 12 ** nleaf <= 1728) else None
            hgen.ch_tasks(p, path, 'order', timeout, est=20, family='order / once / laziness', expr=c03spec.render(tree), leaves=mode, enum=dom)
    info = libinfo.functions()
    for alias, target in sorted(ALIASES.items()):
        fi = info.get(target)
        spec = c05.valid_for(fi['model']) if fi and fi['model'] else [('i',), ('i2',)]
        spec = [(('c', 'num') if a[0] in ('arr_i', 'obj_i') else a) for a in spec]
        if target.startswith('datetime') and target != 'datetimeNew':
            spec = [('c', 'dt')]
        body = CORE_ALIAS.format(alias=alias, target=target, spec=spec)
        body += hgen.harness('alias', 'i: int, i2: int, s: str, b: bool', ['len(s) <= 2', '-3 <= i <= 40', '-3 <= i2 <= 40'],
                             core_call='core_alias(i, i2, s, b)')
        path = hgen.write_module(workdir, f'c03_alias_{alias}', body)
        hgen.ch_tasks(p, path, 'alias', 45 if tier == 'quick' else 200, est=10, family='expression built-in aliases', alias=alias, target=target)
    p.rule = ('one CrossHair condition per ordered operand-kind pair (all operators), per expression shape (effect-logging leaves with symbolic '
              'values) and per documented alias')
    p.bounds = ['operand kinds: unbounded ints, strings len <= 2, null, bool, floats/datetimes/other types from pools chosen by symbolic indices',
                f'{len(arith)} arithmetic and {len(logic)} logical shapes with 2..4 leaves (depth <= 2, seeded sample)', 'alias arguments: ints -3..40, strings len <= 2']
    p.stubs = ['ValueArgsError message formatting', 'host functions ee/hh']
    p.outside = ['bool operands of arithmetic operators (the implementation treats them as 0/1; not demanded either way)', 'float rounding of results',
                 'expression depth > 2 (depth 3-6 trees)', 'int ** int with unbounded symbolic operands (C05 covers a bounded range)']
    p.assumptions = ['specification vf/hlib/c03spec.py', 'the documented order via C11 py_spec', 'CrossHair/z3']
    p.samples = [{'kinds': ['int', 'str']}, {'expr': c03spec.render(logic[0][0])}, {'alias': 'max', 'target': 'mathMax'}]
    return p
