"""
C04 scoping, calling convention and host globals.

CrossHair conditions over small concrete programs; symbolic: the argument list (its length is symbolic for the real
_script_function), argument values, pre-populated host globals, booleans choosing which colliding names the host supplies.
The oracle is the documented convention written directly (positional binding, missing -> null, surplus ignored, `...`
collects the rest; assignments inside a function are local, reads see locals first; top level writes the caller's dict;
library never overwrites a supplied name; script functions replace library functions; bound names beat built-ins).
"""
from ..engine import Plan
from .. import hgen

CORE_BIND = '''
from bare_script import parse_script, execute_script, evaluate_expression, parse_expression
from bare_script.runtime import BareScriptRuntimeError

NP, LAST = {np}, {last!r}
PARAMS = ['p0', 'p1', 'p2'][:NP]
SRC = 'function ff(' + ' , '.join(PARAMS) + (' ...' if LAST else '') + ' ) :' + chr(10) + \\
      '    return arrayNew(' + ', '.join(PARAMS + ['gg0']) + ')' + chr(10) + 'endfunction' + chr(10) + \\
      'pp = systemPartial(ff, 100)' + chr(10)
MODEL = parse_script(SRC)


def _expected(args, gg0):
    out = []
    for k in range(NP):
        if LAST and k == NP - 1:
            out.append(list(args[k:]))
        else:
            out.append(args[k] if k < len(args) else None)
    return out + [gg0]


def core_bind(args, gg0, shadow):
    # shadow: the host also supplies globals named like the parameters (must never be seen instead of a missing argument)
    g = {{'gg0': gg0}}
    if shadow:
        g.update(p0=-1, p1=-2, p2=-3)
    opts = {{'globals': g}}
    execute_script(MODEL, opts)
    info = {{'source': SRC, 'args': list(args), 'shadow': shadow}}
    got = g['ff'](list(args), opts)
    want = _expected(list(args), gg0)
    if got != want:
        info.update(clause='direct call: positional binding / missing -> null / surplus ignored / ... collects the rest', result=repr(got), expected=repr(want))
        return False, info
    got = g['pp'](list(args), opts)
    want = _expected([100] + list(args), gg0)
    if got != want:
        info.update(clause='call through systemPartial', result=repr(got), expected=repr(want))
        return False, info
    # through a script call with the arguments passed positionally
    call = parse_expression('ff(' + ', '.join('a' + str(k) for k in range(len(args))) + ')')
    g2 = dict(g)
    for k in range(len(args)):
        g2['a' + str(k)] = args[k]
    got = evaluate_expression(call, {{'globals': g2, 'statementCount': 0}}, None, False)
    want = _expected(list(args), gg0)
    if got != want:
        info.update(clause='script call', result=repr(got), expected=repr(want))
        return False, info
    if shadow and (g['p0'], g['p1'], g['p2']) != (-1, -2, -3):
        info.update(clause='parameter binding wrote a global')
        return False, info
    return True, {{}}
'''

CORE_SCOPE = '''
from bare_script import parse_script, execute_script
from bare_script.runtime import BareScriptRuntimeError

SRC = {src!r}
MODEL = parse_script(SRC)


VALS = [0, 2, -7]


def _pick(i):
    for j in range(len(VALS)):
        if i == j:
            return VALS[j]
    return VALS[0]


def core_scope(vi, gi, yi, xi, has_xx):
    # values are chosen by symbolic indices from a concrete pool: a symbolic int meeting the float literals of the script becomes a
    # symbolic float, which CrossHair never confirms
    vv, gv, yy, xx = _pick(vi), _pick(gi), _pick(yi), _pick(xi)
    g = {{'gv': gv, 'yy': yy, 'vv': vv}}
    if has_xx:
        g['xx'] = xx
    before = dict(g)
    opts = {{'globals': g}}
    ret = execute_script(MODEL, opts)
    info = {{'source': SRC, 'vv': vv, 'gv': gv, 'yy': yy, 'xx': xx if has_xx else None}}
    if opts['globals'] is not g:
        info['clause'] = 'the caller-supplied globals object was replaced'
        return False, info
    want_rr = {want_rr}
    if g.get('rr') != want_rr:
        info.update(clause='function result: locals first, then globals; assignments are local', rr=repr(g.get('rr')), expected=repr(want_rr))
        return False, info
    for name in ('gv', 'yy', 'vv'):
        if g[name] != before[name]:
            info.update(clause='an assignment inside a function changed global ' + name, value=repr(g[name]))
            return False, info
    if has_xx:
        if g['xx'] != xx:
            info.update(clause='an assignment inside a function changed global xx', value=repr(g['xx']))
            return False, info
    elif 'xx' in g:
        info.update(clause='an assignment inside a function leaked a new global xx')
        return False, info
    for name in {locals_!r}:
        if name in g and name not in before:
            info.update(clause='a function-local name leaked into the globals: ' + name)
            return False, info
    if g.get('top') != {want_top}:
        info.update(clause='top-level assignment must write the caller-supplied globals', top=repr(g.get('top')))
        return False, info
    return True, {{}}
'''
SCOPE_PROGRAMS = {
    'one_param': ('''\
function ff(aa):
    xx = aa + 1
    gv = 5
    loc = 9
    return arrayNew(xx, gv, yy, aa, loc)
endfunction
rr = ff(vv)
top = vv + 2
''', '[vv + 1, 5, yy, vv, 9]', 'vv + 2', ['loc', 'aa']),
    'zero_params': ('''\
function ff():
    xx = vv + 1
    gv = 5
    loc = 9
    return arrayNew(xx, gv, yy, loc)
endfunction
rr = ff()
top = vv + 2
''', '[vv + 1, 5, yy, 9]', 'vv + 2', ['loc']),
    'nested_calls': ('''\
function inner(aa):
    xx = aa * 2
    tmp = 1
    return xx + yy
endfunction
function ff():
    xx = 3
    tmp = inner(vv)
    return arrayNew(xx, tmp, gv)
endfunction
rr = ff()
top = vv + 2
''', '[3, vv * 2 + yy, gv]', 'vv + 2', ['tmp', 'aa']),
    'shadowing_value': ('''\
function helper(aa):
    return aa + 100
endfunction
function ff(helper, systemCompare):
    xx = helper(1)
    loc = systemCompare(1, 2)
    return arrayNew(xx, loc, helper)
endfunction
rr = ff(vv, 5)
top = vv + 2
''', '[None, None, vv]', 'vv + 2', ['loc']),
    'callback': ('''\
function cmp(aa, bb):
    xx = aa
    gv = bb
    return systemCompare(aa, bb)
endfunction
function ff():
    tmp = arraySort(arrayNew(3, vv, 1), cmp)
    return arrayGet(tmp, 0)
endfunction
rr = ff()
top = vv + 2
''', 'min(3, vv, 1)', 'vv + 2', ['tmp', 'aa', 'bb']),
}

CORE_HOST = '''
from bare_script import parse_script, execute_script, evaluate_expression, parse_expression
from bare_script.library import SCRIPT_FUNCTIONS

SRC = {src!r}
MODEL = parse_script(SRC)
LIB_ARRAY_LENGTH = SCRIPT_FUNCTIONS['arrayLength']


def core_host(host_len, host_abs, host_ff, nn, host_none=False):
    def my_len(args, options):
        return 99

    def my_abs(args, options):
        return 77

    def my_ff(args, options):
        return 55
    g = {{'nn': nn}}
    if host_len:
        g['arrayLength'] = my_len
    if host_abs:
        g['abs'] = my_abs
    if host_ff:
        g['ff'] = my_ff
    if host_none:
        g['arrayPop'] = None              # a name the caller supplies as null (e.g. to disable a library function)
    opts = {{'globals': g}}
    execute_script(MODEL, opts)
    if host_none and ('arrayPop' not in g or g['arrayPop'] is not None):
        return False, {{'clause': 'library injection overwrote a caller-supplied name (bound to null)', 'source': SRC}}
    info = {{'source': SRC, 'host_len': host_len, 'host_abs': host_abs, 'host_ff': host_ff, 'nn': nn}}
    # library injected without overwriting a supplied name
    if host_len and g['arrayLength'] is not my_len:
        info['clause'] = 'library injection overwrote a caller-supplied name'
        return False, info
    if not host_len and g.get('arrayLength') is not LIB_ARRAY_LENGTH:
        info['clause'] = 'library function missing from the globals'
        return False, info
    if g.get('r_len') != (99 if host_len else 2):
        info.update(clause='call must use the caller-supplied function when there is one', r_len=repr(g.get('r_len')))
        return False, info
    # a script-defined function replaces a library function (and a host function) of the same name
    if g.get('r_join') != 'script':
        info.update(clause='script-defined function must replace the library function of the same name', r_join=repr(g.get('r_join')))
        return False, info
    if g.get('r_ff') != 7:
        info.update(clause='script-defined function must replace an earlier global of the same name', r_ff=repr(g.get('r_ff')))
        return False, info
    # a name bound in globals or locals always wins over a built-in expression function
    r = evaluate_expression(parse_expression('abs(0 - 3)'), {{'globals': g}}, None, True)
    if r != (77 if host_abs else 3):
        info.update(clause='a global named like a built-in must win over the built-in', result=repr(r))
        return False, info
    r = evaluate_expression(parse_expression('max(1, 2)'), {{'globals': dict(g, max=10)}}, None, True)
    if r is not None:
        info.update(clause='a global VALUE named like a built-in must win over the built-in (calling it yields null)', result=repr(r))
        return False, info
    r = evaluate_expression(parse_expression('abs(0 - 3)'), {{'globals': g}}, {{'abs': my_ff}}, True)
    if r != 55:
        info.update(clause='a local named like a built-in must win over globals and built-ins', result=repr(r))
        return False, info
    return True, {{}}
'''
HOST_SRC = '''\
r_len = arrayLength(arrayNew(1, 2))
function arrayJoin(aa, bb):
    return 'script'
endfunction
r_join = arrayJoin(arrayNew(1), ',')
function ff():
    return 7
endfunction
r_ff = ff()
'''


def plan(tier, seed, workdir):
    import bare_script.runtime as rt
    p = Plan('C04', 'exploration')
    p.encode(rt.execute_script, rt._execute_script_helper, rt._script_function, rt.evaluate_expression)
    timeout = 90 if tier == 'quick' else 400
    for np_ in range(0, 4):
        for last in ((False, True) if np_ else (False,)):
            body = CORE_BIND.format(np=np_, last=last)
            body += hgen.harness('bind', 'args: List[int], gg0: int, shadow: bool', ['len(args) <= 5'], core_call='core_bind(args, gg0, shadow)')
            path = hgen.write_module(workdir, f'c04_bind_{np_}{"v" if last else ""}', body)
            hgen.ch_tasks(p, path, 'bind', timeout, family='parameter binding', params=np_, last_arg_array=last)
    for name, (src, want_rr, want_top, locs) in SCOPE_PROGRAMS.items():
        body = CORE_SCOPE.format(src=src, want_rr=want_rr, want_top=want_top, locals_=locs)
        body += hgen.harness('scope', 'vi: int, gi: int, yi: int, xi: int, has_xx: bool', ['0 <= vi < 3', '0 <= gi < 3', '0 <= yi < 3', '0 <= xi < 2'],
                             core_call='core_scope(vi, gi, yi, xi, has_xx)')
        path = hgen.write_module(workdir, f'c04_scope_{name}', body)
        hgen.ch_tasks(p, path, 'scope', timeout, family='locals vs globals', program=name, source=src,
                      enum={'vi': [0, 1, 2], 'gi': [0, 1, 2], 'yi': [0, 1, 2], 'xi': [0, 1], 'has_xx': [False, True]})
    body = CORE_HOST.format(src=HOST_SRC)
    body += hgen.harness('host', 'host_len: bool, host_abs: bool, host_ff: bool, nn: int, host_none: bool', [], core_call='core_host(host_len, host_abs, host_ff, nn, host_none)')
    path = hgen.write_module(workdir, 'c04_host', body)
    hgen.ch_tasks(p, path, 'host', timeout, family='host globals / library / built-ins', source=HOST_SRC)
    p.rule = ('one CrossHair condition per (parameter count, last-arg-array) with a symbolic argument list, per scoping program with symbolic '
              'host globals, and one for host/library/built-in name collisions with symbolic presence flags')
    p.bounds = ['0..3 parameters, argument lists of symbolic length <= 5 with symbolic int values', '4 scoping programs (1 param, 0 params, nested calls, '
                'arraySort callback)', 'collisions: arrayLength, arrayJoin, ff, abs']
    p.stubs = ['ValueArgsError message formatting']
    p.outside = ['more than 4 functions / 3 parameters', 'async functions', 'argument values other than ints']
    p.assumptions = ['CrossHair/z3 list and dict models']
    p.samples = [{'program': SCOPE_PROGRAMS['zero_params'][0]}, {'binding': 'function ff(p0, p1...): return arrayNew(p0, p1, gg0)'}]
    return p
