"""
C05 error containment: only BareScriptRuntimeError (BareScriptParserError for includes) may escape; library failures
yield the documented failure value and are logged once in debug mode.

A  operators: evaluate_expression('aa <op> bb') with typed symbolic operands (unbounded ints, bools, short strings,
   solver-indexed adversarial floats / big ints / datetimes), one CrossHair condition per (operator, kind, kind).
C  library: per script function with an argument model (read live), (i) every wrong-kind / missing / surplus argument
   vector must give the documented failure value, exactly one debug log line, no exception; (ii) valid-kind symbolic
   arguments never let a host exception escape and return a BareScript value.
D  by-product (native, reported as such): deep recursion of script functions.
"""
from ..engine import Plan
from .. import hgen
from ..hlib import libinfo

OPS = ['+', '-', '*', '/', '%', '**']
KINDS = ['int', 'bool', 'float', 'big', 'str', 'null', 'dt']
CMP_OPS = ['==', '!=', '<', '<=', '>', '>=']

CORE_OP = '''
import datetime
from bare_script import parse_expression, evaluate_expression
from bare_script.runtime import BareScriptRuntimeError
from bare_script.value import value_type

EXPR = parse_expression({expr!r})
FLOATS = [0.0, -0.0, 0.5, -8.0, 1e308, 1000.0, 5e-324, float('inf'), float('-inf'), float('nan'), -0.5, 2.0 ** 53]
BIGS = [10 ** 400, -(10 ** 400), 2 ** 70, -(2 ** 1024)]
DTS = [datetime.datetime(2024, 1, 2, 3, 4, 5), datetime.date(2024, 1, 2), datetime.datetime(9999, 12, 31, 23, 59, 59),
       datetime.datetime(1, 1, 1)]
ARRS = [[], [1], ['id', 7], ['id', 'n/a'], [None, 1], [[1], 'a'], [True, 1], [1.5, 'x'], {{'a': 1}}, {{'a': 'x'}}, [{{'k': 1}}], [{{'k': 'v'}}]]


def _pick(pool, i):
    for j in range(len(pool)):
        if i == j:
            return pool[j]
    return pool[0]


def _val(kind, x):
    if kind == 'float':
        return _pick(FLOATS, x)
    if kind == 'big':
        return _pick(BIGS, x)
    if kind == 'dt':
        return _pick(DTS, x)
    if kind == 'arr':
        return _pick(ARRS, x)
    if kind == 'null':
        return None
    return x


def core_op(a, b):
    va, vb = _val({ka!r}, a), _val({kb!r}, b)
    try:
        r = evaluate_expression(EXPR, {{'globals': {{'aa': va, 'bb': vb}}}})
    except BareScriptRuntimeError:
        return True, {{}}
    except Exception as exc:
        return False, {{'clause': 'host exception escaped evaluate_expression', 'expr': {expr!r}, 'aa': repr(va), 'bb': repr(vb),
                       'exception': type(exc).__name__ + ': ' + str(exc)[:120], 'exception_type': type(exc).__name__}}
    if value_type(r) is None:
        return False, {{'clause': 'result is not a BareScript value', 'expr': {expr!r}, 'aa': repr(va), 'bb': repr(vb), 'result': repr(r)[:80],
                       'exception_type': 'result:' + type(r).__name__}}
    return True, {{}}
'''

PTYPE = {'int': 'int', 'bool': 'bool', 'str': 'str', 'float': 'int', 'big': 'int', 'dt': 'int', 'null': 'int', 'arr': 'int'}


def _pre(kind, name, op, side):
    if kind == 'float':
        return [f'0 <= {name} < 12']
    if kind in ('big', 'dt'):
        return [f'0 <= {name} < 4']
    if kind == 'arr':
        return [f'0 <= {name} < 12']
    if kind == 'null':
        return [f'{name} == 0']
    if kind == 'str':
        return [f'len({name}) <= 2']
    if kind == 'int' and op == '**':
        return [f'-6 <= {name} <= 6'] if side == 'l' else [f'-3 <= {name} <= 400']
    return []


CORE_LIB = '''
import datetime, re
from bare_script import parse_expression, evaluate_expression
from bare_script.runtime import BareScriptRuntimeError
from bare_script.value import value_type
from bare_script.library import SCRIPT_FUNCTIONS

NAME = {name!r}
FAIL = {fail!r}
FAIL_DYNAMIC = {faildyn!r}
VECTORS = {vectors!r}          # list of (label, [arg spec ...]); arg spec: ('c', concrete key) | ('i',) | ('s',) | ('b',)
CONC = {{'num': 1, 'str': 'a', 'arr': [1, 2], 'obj': {{'a': 1}}, 'dt': datetime.datetime(2024, 1, 2), 'rx': re.compile('a'),
        'fn': len, 'null': None, 'true': True, 'arr0': [], 'obj0': {{}}}}
PREFIX = 'BareScript: Function "' + NAME + '" failed with error:'


def _args(spec, i, s, b):
    out = []
    for a in spec:
        if a[0] == 'c':
            v = CONC[a[1]]
            out.append(list(v) if isinstance(v, list) else (dict(v) if isinstance(v, dict) else v))
        elif a[0] == 'i':
            out.append(i)
        elif a[0] == 's':
            out.append(s)
        else:
            out.append(b)
    return out


def core_wrong(i, s, b):
    for label, spec in VECTORS:
        args = _args(spec, i, s, b)
        expr = {{'function': {{'name': NAME, 'args': [{{'variable': 'a' + str(k)}} for k in range(len(args))]}}}}
        g = dict(('a' + str(k), v) for k, v in enumerate(args))
        g[NAME] = SCRIPT_FUNCTIONS[NAME]
        log = []
        try:
            r = evaluate_expression(expr, {{'globals': g, 'debug': True, 'logFn': log.append}}, None, False)
        except Exception as exc:
            return False, {{'clause': 'exception escaped a failing library call', 'function': NAME, 'vector': label,
                           'exception': type(exc).__name__ + ': ' + str(exc)[:120]}}
        if not FAIL_DYNAMIC and not (type(r) is type(FAIL) and r == FAIL):
            return False, {{'clause': 'wrong-kind/missing/surplus argument must yield the documented failure value', 'function': NAME,
                           'vector': label, 'result': repr(r)[:80], 'expected': repr(FAIL)}}
        if not (len(log) == 1 and NAME in log[0]):
            return False, {{'clause': 'debug mode must log the failure exactly once, naming the function', 'function': NAME, 'vector': label, 'log': repr(log)[:200]}}
    return True, {{}}


VALID = {valid!r}              # arg spec list for the all-valid call; ('i2',) second int, ('arr_i',) [i, i2], ('obj_i',) {{'a': i}}


def core_valid(i, i2, s, b):
    args = []
    for a in VALID:
        if a[0] == 'c':
            v = CONC[a[1]]
            args.append(list(v) if isinstance(v, list) else (dict(v) if isinstance(v, dict) else v))
        elif a[0] == 'i':
            args.append(i)
        elif a[0] == 'i2':
            args.append(i2)
        elif a[0] == 's':
            args.append(s)
        elif a[0] == 'b':
            args.append(b)
        elif a[0] == 'arr_i':
            args.append([i, s, i2])
        elif a[0] == 'obj_i':
            args.append({{'a': i, 'b': s}})
    expr = {{'function': {{'name': NAME, 'args': [{{'variable': 'a' + str(k)}} for k in range(len(args))]}}}}
    g = dict(('a' + str(k), v) for k, v in enumerate(args))
    g[NAME] = SCRIPT_FUNCTIONS[NAME]
    try:
        r = evaluate_expression(expr, {{'globals': g}}, None, False)
    except BareScriptRuntimeError:
        return True, {{}}
    except Exception as exc:
        return False, {{'clause': 'host exception escaped a library call', 'function': NAME, 'exception': type(exc).__name__ + ': ' + str(exc)[:120]}}
    if value_type(r) is None:
        return False, {{'clause': 'library result is not a BareScript value', 'function': NAME, 'result': repr(r)[:80]}}
    return True, {{}}
'''

VALID_CONC = {'number': 'num', 'string': 'str', 'array': 'arr', 'object': 'obj', 'datetime': 'dt', 'regex': 'rx', 'function': 'fn',
              'boolean': 'true', None: 'num'}
WRONG = {
    'number': [('c', 'null'), ('s',), ('c', 'arr'), ('c', 'obj'), ('c', 'dt')],
    'string': [('c', 'null'), ('i',), ('c', 'arr'), ('c', 'obj'), ('b',)],
    'array': [('c', 'null'), ('i',), ('s',), ('c', 'obj'), ('b',)],
    'object': [('c', 'null'), ('i',), ('s',), ('c', 'arr'), ('b',)],
    'datetime': [('c', 'null'), ('i',), ('s',), ('c', 'arr')],
    'regex': [('c', 'null'), ('i',), ('s',), ('c', 'obj')],
    'function': [('c', 'null'), ('i',), ('s',), ('c', 'arr')],
}
SYM_VALID = {'number': ('i',), 'string': ('s',), 'boolean': ('b',), 'array': ('arr_i',), 'object': ('obj_i',), None: ('i',)}


def vectors_for(model):
    base = [('c', VALID_CONC[a.get('type')]) for a in model if not a.get('lastArgArray')]
    out = []
    nreq = 0
    for k, a in enumerate(model):
        if a.get('lastArgArray'):
            continue
        t = a.get('type')
        required = t is not None and t != 'boolean' and not a.get('nullable') and a.get('default') is None
        if required:
            nreq = k + 1
        for w in WRONG.get(t, []):
            if w == ('c', 'null') and (a.get('nullable')):
                continue
            spec = list(base)
            spec[k] = w
            out.append((f'arg{k}:{t}<-{w}', spec[:max(k + 1, len(base))]))
    # missing: drop the last required argument (and everything after it)
    if nreq > 0:
        out.append((f'missing arg{nreq - 1}', base[:nreq - 1]))
    # surplus
    if not any(a.get('lastArgArray') for a in model):
        out.append(('surplus argument', base + [('c', 'num')]))
    return out


def valid_for(model):
    spec = []
    used_i = False
    for a in model:
        if a.get('lastArgArray'):
            spec.append(('i2',))
            continue
        t = a.get('type')
        s = SYM_VALID.get(t)
        if s is None:
            spec.append(('c', VALID_CONC[t]))
        elif s == ('i',):
            spec.append(('i2',) if used_i else ('i',))
            used_i = True
        else:
            spec.append(s)
    return spec


def recursion_native():
    """By-product (concrete): unbounded and deep script recursion lets only BareScriptRuntimeError escape."""
    from bare_script import parse_script, execute_script
    from bare_script.runtime import BareScriptRuntimeError
    for src, lim in (("function rr(n):\n    return rr(n + 1)\nendfunction\nreturn rr(0)\n", 0),
                     ("function rr(n):\n    if n > 0:\n        return 1 + rr(n - 1)\n    endif\n    return 0\nendfunction\nreturn rr(dd)\n", 0)):
        for depth in (50, 150, 300, 600, 1200):
            try:
                execute_script(parse_script(src), {'globals': {'dd': depth}, 'maxStatements': lim})
            except BareScriptRuntimeError:
                pass
            except BaseException as exc:  # pylint: disable=broad-exception-caught
                return {'state': 'violation', 'detail': f'{type(exc).__name__} escaped at depth {depth}',
                        'replay': {'module': 'vf.props.c05', 'fn': 'replay_recursion', 'kwargs': {'src': src, 'depth': depth}}}
    return {'state': 'ok', 'checked': 10}


def replay_recursion(src, depth):
    from bare_script import parse_script, execute_script
    from bare_script.runtime import BareScriptRuntimeError
    try:
        execute_script(parse_script(src), {'globals': {'dd': depth}, 'maxStatements': 0})
    except BareScriptRuntimeError:
        return True, {}
    except BaseException as exc:  # pylint: disable=broad-exception-caught
        return False, {'clause': 'host exception escaped deep recursion', 'exception': type(exc).__name__, 'depth': depth}
    return True, {}


def plan(tier, seed, workdir):
    import bare_script.runtime as rt
    import bare_script.value as val
    p = Plan('C05', 'exploration')
    p.encode(rt.evaluate_expression, val.value_args_validate, val.value_string)
    t_op = 40 if tier == 'quick' else 180
    for op in OPS:
        opn = {'+': 'add', '-': 'sub', '*': 'mul', '/': 'div', '%': 'mod', '**': 'pow'}[op]
        for ka in KINDS:
            for kb in KINDS:
                if op != '+' and ('str' in (ka, kb) or 'null' in (ka, kb)) and tier == 'quick' and (ka, kb) not in (('str', 'int'), ('null', 'int'), ('int', 'null')):
                    continue
                if op == '**' and kb == 'big':
                    continue      # x ** 10**400 does not terminate in CPython: pathological size, outside the claim
                expr = f'aa {op} bb'
                body = CORE_OP.format(expr=expr, ka=ka, kb=kb)
                pre = _pre(ka, 'a', op, 'l') + _pre(kb, 'b', op, 'r')
                body += hgen.harness('op', f'a: {PTYPE[ka]}, b: {PTYPE[kb]}', pre, core_call='core_op(a, b)')
                path = hgen.write_module(workdir, f'c05_op_{opn}_{ka}_{kb}', body)
                hgen.ch_tasks(p, path, 'op', t_op, family='operator', expr=expr, kinds=[ka, kb])
    for op in CMP_OPS + ['+']:
        for ka, kb in (('arr', 'arr'), ('arr', 'int'), ('str', 'arr'), ('dt', 'arr'), ('arr', 'float')):
            expr = f'aa {op} bb'
            body = CORE_OP.format(expr=expr, ka=ka, kb=kb)
            body += hgen.harness('op', f'a: {PTYPE[ka]}, b: {PTYPE[kb]}', _pre(ka, 'a', op, 'l') + _pre(kb, 'b', op, 'r'), core_call='core_op(a, b)')
            path = hgen.write_module(workdir, f'c05_cmp_{CMP_OPS.index(op) if op in CMP_OPS else 9}_{ka}_{kb}', body)
            hgen.ch_tasks(p, path, 'op', t_op, family='comparison / concatenation with containers', expr=expr, kinds=[ka, kb])
    for ka in KINDS:
        body = CORE_OP.format(expr='-aa + bb', ka=ka, kb='int')
        body += hgen.harness('op', f'a: {PTYPE[ka]}, b: int', _pre(ka, 'a', '-', 'l'), core_call='core_op(a, b)')
        path = hgen.write_module(workdir, f'c05_op_neg_{ka}', body)
        hgen.ch_tasks(p, path, 'op', t_op, family='operator', expr='-aa + bb', kinds=[ka, 'int'])
    info = libinfo.functions()
    t_lib = 30 if tier == 'quick' else 120
    nfn = 0
    for name, fi in sorted(info.items()):
        if not fi['has_model'] or name in libinfo.EXCLUDE or name.startswith('schema') or name.startswith('systemFetch'):
            continue
        nfn += 1
        p.encode(fi['fn'])
        body = CORE_LIB.format(name=name, fail=fi['fail'], faildyn=bool(fi.get('fail_dynamic')), vectors=vectors_for(fi['model']), valid=valid_for(fi['model']))
        body += hgen.harness('wrong', 'i: int, s: str, b: bool', ['len(s) <= 2'], core_call='core_wrong(i, s, b)')
        body += hgen.harness('valid', 'i: int, i2: int, s: str, b: bool', ['len(s) <= 2', '-3 <= i <= 40', '-3 <= i2 <= 40'],
                             core_call='core_valid(i, i2, s, b)')
        path = hgen.write_module(workdir, f'c05_lib_{name}', body)
        hgen.ch_tasks(p, path, 'wrong', t_lib, family='library wrong-kind', function=name, vectors=len(vectors_for(fi['model'])))
        hgen.ch_tasks(p, path, 'valid', t_lib, family='library valid-kind', function=name)
    p.add({'kind': 'native', 'id': 'recursion_native', 'module': 'vf.props.c05', 'fn': 'recursion_native', 'kwargs': {}, 'timeout': 120},
          family='deep recursion (native by-product)')
    p.rule = ('one CrossHair condition per (operator, operand kind, operand kind) and two per library function (wrong-kind vectors; '
              'valid-kind symbolic arguments); non-trivial = twin refuted and verdict decided')
    p.bounds = ['ints unbounded except: ** base in -6..6, exponent in -3..400; library valid family ints in -3..40',
                'strings len <= 2', 'floats/big ints/datetimes from adversarial pools chosen by a symbolic index',
                f'{nfn} library functions with an argument model (clock, random, fetch, log and schema functions excluded)']
    p.stubs = ['ValueArgsError message formatting (the debug log line prefix is still checked)']
    p.outside = ['RecursionError/MemoryError from pathological sizes except the native recursion by-product',
                 'library functions without an argument model (arrayNew, objectNew, mathMin/Max, ...)', 'float results are not range-checked', 'exponents from the big-int pool (x ** 10**400 does not terminate)']
    p.assumptions = ['CrossHair/z3 models of int/str/bool', 'documented failure value = third argument of value_args_validate in the live source']
    p.samples = [{'expr': 'aa / bb', 'kinds': ['int', 'int']}, {'function': 'arrayGet', 'vectors': [v[0] for v in vectors_for(info['arrayGet']['model'])]}]
    return p
