"""
C06 parser totality and diagnostics (partly applicable).

E2 (z3, every line length and column): the elision-and-caret arithmetic of BareScriptParserError.__init__ is executed
symbolically from its real AST (vf.symint extended with abstract line slices): the character displayed above the caret is
line[column-1] in all three elision cases, and a fault at end of line puts the caret exactly one past the displayed text.
E1 (CrossHair-chosen structure, the parser sees concrete text; low leverage, stated): statement kind x fault x indentation x
trailing blanks x prepended lines x start line x long-line padding x continuation layout -> line number, line text and a
column that points at the offending character, caret under the same character; end-of-input shapes; token-soup totality.
Not applicable: arbitrary texts / faults at every column of arbitrary 400-character lines (symbolic text cannot reach the
regex-driven parser).
"""
import ast

from ..engine import Plan
from .. import hgen


def lemma_caret():
    import z3
    import bare_script.parser as P
    from .. import symint as SI

    class SymStr(SI.SymInt):
        """strings as ('$slice', literal prefix length, start, end, literal suffix length) over the opaque line of length n"""
        def expr(self, node, fr):
            if isinstance(node, ast.Subscript):
                base = self.expr(node.value, fr)
                if isinstance(base, tuple) and base and base[0] == '$slice':
                    if not (isinstance(base[1], int) and base[1] == 0 and isinstance(base[4], int) and base[4] == 0):
                        raise SI.Unsupported('slice of a decorated string')
                    a0, b0 = SI.lift(base[2]), SI.lift(base[3])
                    n_ = b0 - a0
                    sl = node.slice
                    if not isinstance(sl, ast.Slice) or sl.step is not None:
                        raise SI.Unsupported('index (not slice) of the line')

                    def norm(v, default):
                        if v is None:
                            return default
                        v = SI.lift(self.expr(v, fr))
                        return z3.If(v < 0, z3.If(n_ + v < 0, z3.IntVal(0), n_ + v), z3.If(v > n_, n_, v))
                    lo, hi = norm(sl.lower, z3.IntVal(0)), norm(sl.upper, n_)
                    hi = z3.If(hi < lo, lo, hi)
                    return ('$slice', 0, a0 + lo, a0 + hi, 0)
            if isinstance(node, ast.BinOp) and isinstance(node.op, ast.Add):
                a, b = self.expr(node.left, fr), self.expr(node.right, fr)
                sa = isinstance(a, tuple) and a and a[0] == '$slice'
                sb = isinstance(b, tuple) and b and b[0] == '$slice'
                if sa and isinstance(b, str):
                    return ('$slice', a[1], a[2], a[3], a[4] + len(b))
                if sb and isinstance(a, str):
                    return ('$slice', b[1] + len(a), b[2], b[3], b[4])
                if isinstance(a, str) and isinstance(b, str):
                    return a + b
                if sa or sb:
                    raise SI.Unsupported('string concatenation form')
                return self.binop(node.op, a, b)
            return super().expr(node, fr)

        def call(self, node, fr):
            if isinstance(node.func, ast.Name) and node.func.id == 'len' and len(node.args) == 1:
                v = self.expr(node.args[0], fr)
                if isinstance(v, str):
                    return len(v)
                if isinstance(v, tuple) and v and v[0] == '$slice':
                    return SI.lift(v[1]) + (SI.lift(v[3]) - SI.lift(v[2])) + SI.lift(v[4])
            return super().call(node, fr)

    n, c = z3.Int('n'), z3.Int('c')
    interp = SymStr(P)
    tree = interp.function_ast(P.BareScriptParserError.__init__)
    fr = SI.Frame({'self': None, 'error': 'E', 'line': ('$slice', 0, z3.IntVal(0), n, 0), 'column_number': c, 'line_number': None, 'prefix': None})
    done = 0
    for st in tree.body:
        try:
            interp.stmt(st, fr, z3.BoolVal(True))
            done += 1
        except SI.Unsupported:
            break                      # the message formatting (f-string) and attribute assignments follow
    if 'line_error' not in fr.env or 'line_column' not in fr.env:
        return {'state': 'skipped', 'why': f'elision block not recognised after {done} statements (structure changed)'}
    le, lc = fr.env['line_error'], SI.lift(fr.env['line_column'])
    if not (isinstance(le, tuple) and le[0] == '$slice'):
        return {'state': 'skipped', 'why': 'line_error is not a decorated slice of the line'}
    p_, a_, b_, q_ = [SI.lift(x) for x in le[1:]]
    k = lc - 1 - p_                               # offset of the caret inside the displayed slice
    pre = z3.And(n >= 0, c >= 1, c <= n + 1)
    goal = z3.And(a_ + k == c - 1, k >= 0, z3.If(c <= n, k < b_ - a_, z3.And(k == b_ - a_, b_ == n, q_ == 0)))
    vac = z3.Solver()
    vac.add(pre, n > 300, c > 200, c < 250)
    if str(vac.check()) != 'sat':
        return {'state': 'error', 'error': 'vacuous precondition'}
    sol = z3.Solver()
    sol.set('timeout', 300000)
    sol.add(pre, z3.Not(goal))
    r = str(sol.check())
    if r == 'unsat':
        return {'state': 'unsat', 'lemma': 'for every line length n >= 0 and column 1..n+1 the caret sits under line[column-1] (or one past the '
                                           'displayed text for a fault at end of line) in all elision cases'}
    if r != 'sat':
        return {'state': 'inconclusive', 'why': r}
    m = sol.model()
    nv, cv = m.eval(n, True).as_long(), m.eval(c, True).as_long()
    ok, info = replay_caret(nv, cv)
    if ok:
        return {'state': 'inconclusive', 'why': f'model n={nv} column={cv} does not fail on the real constructor'}
    return {'state': 'violation', 'detail': info, 'replay': {'module': 'vf.props.c06', 'fn': 'replay_caret', 'kwargs': {'n': nv, 'c': cv}}}


def replay_caret(n, c):
    from bare_script.parser import BareScriptParserError
    n = min(n, 100000)
    c = min(c, n + 1)
    line = 'a' * (c - 1) + ('X' if c <= n else '') + 'b' * max(0, n - c)
    msg = str(BareScriptParserError('E', line, c, 3)).split('\n')
    shown, caret = msg[1], msg[2].index('^')
    info = {'n': n, 'column': c, 'shown': shown[:140], 'caret_at': caret}
    if c <= n:
        ok = caret < len(shown) and shown[caret] == 'X'
    else:
        ok = caret == len(shown)
    if not ok:
        info['clause'] = 'the caret is not under the offending character of the (elided) line'
    return ok, info


CORE = '''
from bare_script import parse_script
from bare_script.parser import BareScriptParserError

PREFIX = ['xx = ', 'return ', 'jumpif (', 'if ', 'elif ', 'while ', 'for vv in ', '']
SUFFIX = ['', '', ') lbl', ':', ':', ':', ':', '']
BEFORE = [[], [], [], [], ['if 1:'], [], [], []]
AFTER = [[], [], [], ['endif'], ['endif'], ['endwhile'], ['endfor'], []]
FAULT = [('aa + @ bb', '@'), ('aa bb', 'b'), ('(aa + 1', '('), ('ff(1 2)', '2')]
FAULT_AT = [5, 3, 0, 5]                     # index of the offending character inside the fault text
PRE_LINES = ['# comment', '', 'zz = 1', '    # indented comment']
KIND = {kind}


def _pick(seq, i):
    for j in range(len(seq)):
        if i == j:
            return seq[j]
    return seq[0]


def core_pos(fault, indent, trail, npre, start10, pad, cont):
    expr, ch = _pick(FAULT, fault)
    at = _pick(FAULT_AT, fault)
    padding = _pick(['', 'aaaa + ' * 12, 'aaaa + ' * 30], pad)
    ind = _pick(['', '  ', chr(9)], indent)
    tr = _pick(['', '  ', ' ' + chr(9)], trail)
    head = ind + PREFIX[KIND] + padding
    stmt = head + expr + SUFFIX[KIND] + tr
    want_col = len(head) + at + 1
    pre = [PRE_LINES[j] for j in range(4) if j < npre]
    start = 10 if start10 else 1
    phys = [stmt]
    if cont and KIND not in (7,) and padding == '':
        # break the statement after its prefix with a continuation backslash (optionally a comment / blank line in between)
        first = (ind + PREFIX[KIND]).rstrip()
        rest = expr + SUFFIX[KIND] + tr
        if first:
            mid = [] if cont == 1 else (['# inside'] if cont == 2 else [''])
            phys = [first + ' ' + chr(92)] + mid + ['      ' + rest]
    lines = pre + BEFORE[KIND] + phys + AFTER[KIND]
    want_line_no = start + len(pre) + len(BEFORE[KIND])
    info = {{'lines': lines, 'start': start}}
    try:
        parse_script(chr(10).join(lines) + chr(10), start)
    except BareScriptParserError as exc:
        info.update(line_number=exc.line_number, line=exc.line, column=exc.column_number, message=str(exc))
        if exc.line_number != want_line_no:
            info['clause'] = 'wrong logical line number (expected ' + str(want_line_no) + ')'
            return False, info
        col = exc.column_number
        if not (isinstance(col, int) and 1 <= col <= len(exc.line) + 1):
            info['clause'] = 'column outside the line'
            return False, info
        if len(phys) == 1:
            if exc.line != stmt:
                info['clause'] = 'error line is not the text of the source line'
                return False, info
            # the parser reports where it stopped: the offending character or the blanks immediately before it
            if not (col <= want_col and stmt[col - 1:want_col - 1].strip() == ''):
                info['clause'] = 'column does not point at the offending character (expected ' + str(want_col) + ' or the blanks before it)'
                return False, info
        if not exc.line[col - 1:].lstrip().startswith(ch):
            info['clause'] = 'column does not point at the offending character ' + repr(ch)
            return False, info
        msg = str(exc).split(chr(10))
        if str(want_line_no) not in msg[0]:
            info['clause'] = 'message does not name the line number'
            return False, info
        caret = msg[2].index('^') if '^' in msg[2] else -1
        if caret < 0 or caret >= len(msg[1]) or not msg[1][caret:].lstrip().startswith(ch) or \
                (msg[1][caret] != ch and exc.line[col - 1] == ch):
            info['clause'] = 'caret is not under the offending character in the formatted message'
            return False, info
        return True, {{}}
    except Exception as exc:
        info['clause'] = 'exception other than BareScriptParserError: ' + type(exc).__name__
        return False, info
    info['clause'] = 'faulty statement was accepted'
    return False, info


OPEN = ['function ff():', 'if aa:', 'while aa:', 'for vv in aa:', 'async function gg(aa, bb...):']
BODY = ['xx = 1', 'ff()', '# note', '']


def core_eof(o1, o2, nbody, tail, start10=False):
    lines = [_pick(OPEN, o1)]
    if o2 > 0:
        inner = _pick(OPEN, o2 - 1)
        if not (inner.startswith('function') or inner.startswith('async')) or not (lines[0].startswith('function') or lines[0].startswith('async')):
            lines.append('    ' + inner)
    lines += ['    ' + BODY[j] for j in range(4) if j < nbody]
    if tail == 1:
        lines.append('yy = 2 + ' + chr(92))
    elif tail == 2:
        lines = ['zz = 1', 'yy = 2 ' + chr(92)]
    elif tail == 3:
        lines = ['zz = 1', 'yy = 2 ' + chr(92), '   ', '# c']
    elif tail == 4:
        lines = ['zz = 1', chr(92)]
    elif tail == 5:
        lines = ['zz = 1', '  ' + chr(92) + ' ', '', '# c']
    elif tail == 6:
        lines.append('endfunction')            # closes the function while an inner block may still be open
        inner = lines[1].strip() if len(lines) > 2 else ''
        if not (lines[0].startswith('function') or lines[0].startswith('async')) or not (inner.startswith(('if ', 'while ', 'for ')) and inner.endswith(':')):
            return True, {{}}
    start = 10 if start10 else 1
    info = {{'lines': lines, 'start': start}}
    try:
        model = parse_script(chr(10).join(lines), start)
    except BareScriptParserError as exc:
        # the reported position must be a line of the input: number offset by the start line, text equal to that line
        k = exc.line_number - start if isinstance(exc.line_number, int) else -1
        if exc.error.startswith('Missing end') and not (0 <= k < len(lines) and lines[k].strip() == exc.line.strip()):
            info.update(clause='end-of-input error does not name the line of the block left open', line_number=exc.line_number, line=exc.line)
            return False, info
        return True, {{}}
    except Exception as exc:
        info['clause'] = 'exception other than BareScriptParserError: ' + type(exc).__name__
        return False, info
    info['clause'] = 'input with a block left open / a pending continuation at end of input was accepted'
    info['model'] = repr(model)[:300]
    return False, info


SOUP = ['xx = 1', 'if xx:', 'elif yy:', 'else:', 'endif', 'while xx:', 'endwhile', 'for vv in aa:', 'endfor', 'break', 'continue',
        'function ff(aa):', 'endfunction', 'return xx', 'jump lbl', 'lbl:', 'xx +', ')', "include 'a'", 'jumpif (xx lbl', 'xx = = 1', 'ff(', '@',
        'xx = 2e', 'return 1.5e-', 'if 7else:']
FIRST = {first}


def core_soup(l2, l3, n):
    lines = [SOUP[FIRST], _pick(SOUP, l2), _pick(SOUP, l3)][:3]
    lines = lines if n == 3 else (lines[:2] if n == 2 else lines[:1])
    try:
        model = parse_script(lines)
    except BareScriptParserError as exc:
        if not (isinstance(exc.line_number, int) and 1 <= exc.line_number <= len(lines) and isinstance(exc.column_number, int)
                and 1 <= exc.column_number <= len(exc.line) + 1):
            return False, {{'clause': 'parser error without a usable position', 'lines': lines, 'line_number': exc.line_number,
                           'column': exc.column_number, 'line': exc.line}}
        return True, {{}}
    except Exception as exc:
        return False, {{'clause': 'exception other than BareScriptParserError: ' + type(exc).__name__ + ': ' + str(exc)[:80], 'lines': lines}}
    # accepted: every non-blank, non-comment line is accounted for by at least one statement
    def count(stmts):
        return sum(1 + (count(s['function']['statements']) if 'function' in s else 0) for s in stmts)
    simple = ('xx = 1', 'return xx', 'jump lbl', 'lbl:', 'break', 'continue')
    if all(ln in simple for ln in lines) and count(model['statements']) != len(lines):
        return False, {{'clause': 'accepted program of simple statements does not have one statement per source line', 'lines': lines,
                       'model': repr(model)[:300]}}
    return True, {{}}
'''


def plan(tier, seed, workdir):
    import bare_script.parser as ps
    p = Plan('C06', 'exploration')
    p.encode(ps.parse_script, ps.parse_expression, ps.BareScriptParserError.__init__)
    p.add({'kind': 'lemma', 'id': 'lemma_caret', 'module': 'vf.props.c06', 'fn': 'lemma_caret', 'kwargs': {}, 'timeout': 600, 'est': 20},
          family='E2 elision and caret arithmetic for every line length and column')
    timeout = 240 if tier == 'quick' else 900
    for kind in range(8):
        body = CORE.format(kind=kind, first=0)
        pre = ['0 <= fault <= 3', '0 <= indent <= 2', '0 <= trail <= 2', '0 <= npre <= 3', '0 <= pad <= 2', '0 <= cont <= 3']
        if tier == 'quick':
            pre += ['npre in (0, 2)', 'pad != 1']
        body += hgen.harness('pos', 'fault: int, indent: int, trail: int, npre: int, start10: bool, pad: int, cont: int', pre,
                             core_call='core_pos(fault, indent, trail, npre, start10, pad, cont)')
        path = hgen.write_module(workdir, f'c06_pos_k{kind}', body, stub=False)
        hgen.ch_tasks(p, path, 'pos', timeout, twin_timeout=60, est=timeout / 2, family='E1 error position', statement_kind=kind)
    body = CORE.format(kind=0, first=0)
    body += hgen.harness('eof', 'o1: int, o2: int, nbody: int, tail: int, start10: bool', ['0 <= o1 <= 4', '0 <= o2 <= 5', '0 <= nbody <= 4', '0 <= tail <= 6'],
                         core_call='core_eof(o1, o2, nbody, tail, start10)')
    path = hgen.write_module(workdir, 'c06_eof', body, stub=False)
    hgen.ch_tasks(p, path, 'eof', timeout, twin_timeout=60, est=60, family='E1 end-of-input shapes')
    firsts = range(26) if tier == 'thorough' else list(range(0, 23, 2)) + [23, 24, 25]
    for first in firsts:
        body = CORE.format(kind=0, first=first)
        body += hgen.harness('soup', 'l2: int, l3: int, n: int', ['0 <= l2 < 26', '0 <= l3 < 26', '1 <= n <= 3'], core_call='core_soup(l2, l3, n)')
        path = hgen.write_module(workdir, f'c06_soup_{first:02d}', body, stub=False)
        hgen.ch_tasks(p, path, 'soup', timeout, twin_timeout=60, est=60, family='E1 token-soup totality', first_line=first)
    p.rule = ('1 z3 lemma on the real AST of BareScriptParserError.__init__ (all n, all columns); CrossHair conditions per statement kind '
              '(fault x indentation x trailing blanks x prepended lines x start line x padding x continuation chosen by symbolic ints), '
              'end-of-input shapes, and 3-line token soup per first line')
    p.bounds = ['E2: unbounded line length and column', 'E1: 8 statement kinds x 4 faults x 3 indents x 3 trailing x {0..3} prepended lines x 2 start '
                'lines x 3 paddings (0, 84, 210 characters) x 4 continuation layouts', 'token soup: 26-line vocabulary, <= 3 lines']
    p.stubs = []
    p.outside = ['arbitrary texts, faults at every column of arbitrary long lines, nesting depth 50, backslash runs (symbolic text cannot reach the parser)']
    p.assumptions = ['z3 LIA', 'vf.symint + abstract line slices', 'CrossHair for the enumeration']
    p.samples = [{'statement': 'if aa + @ bb:', 'expected': 'line number, full line, column of @, caret under @'}]
    return p
