"""
C07 well-formed lowering.

Solver-decided clause: for every input (oracle bits, array lengths, condition values) structured code never raises
"Unknown jump label" - CrossHair over the shape set shared with C01.  The static clauses (schema-valid, per-scope unique
label definitions, every jump targets a label of its own list, every label targeted, lint free of label warnings) have no
input to range over; they are evaluated concretely on every enumerated shape and reported as such.
"""
import random

from ..engine import Plan
from ..gen import skel
from . import c01


def _scopes(model):
    yield 'global', model['statements']
    for st in model['statements']:
        if 'function' in st:
            yield st['function']['name'], st['function']['statements']


def static_facts(src):
    from bare_script import parse_script, validate_script, lint_script
    model = parse_script(src)
    problems = []
    try:
        validate_script(model)
    except Exception as exc:  # pylint: disable=broad-exception-caught
        problems.append(f'schema: {type(exc).__name__}: {exc}'[:200])
    for name, stmts in _scopes(model):
        labels = [s['label'] for s in stmts if 'label' in s]
        jumps = [s['jump']['label'] for s in stmts if 'jump' in s]
        for lab in sorted(set(labels)):
            if labels.count(lab) > 1:
                problems.append(f'{name}: label {lab} defined {labels.count(lab)} times')
            if lab not in jumps:
                problems.append(f'{name}: label {lab} is never targeted')
        for lab in sorted(set(jumps)):
            if lab not in labels:
                problems.append(f'{name}: jump to {lab} has no label in its own statement list')
    for w in lint_script(model):
        if 'label' in w.lower():
            problems.append('lint: ' + w)
    return problems


def _programs(tier, seed):
    rng = random.Random(seed)
    progs = []
    depths = (1, 2, 3) if tier == 'quick' else (1, 2, 3)
    for d in depths:
        for spec in skel.shape_specs(d):
            for scope in ('global', 'function'):
                progs.append((skel.spec_name(spec) + '_' + scope[0], spec, scope))
    if tier == 'thorough':
        d4 = list(skel.shape_specs(4))
        rng.shuffle(d4)
        for spec in d4[:20000]:
            progs.append((skel.spec_name(spec) + '_g', spec, 'global'))
    for spec in c01.special_specs():
        for scope in ('global', 'function'):
            progs.append((skel.spec_name(spec) + '_' + scope[0], spec, scope))
    return progs


def static_sweep(tier, seed, lo, hi):
    """Native by-product: static well-formedness of every enumerated shape in [lo, hi)."""
    progs = _programs(tier, seed)[lo:hi]
    for name, spec, scope in progs:
        prog, _ = skel.build(spec, scope)
        probs = static_facts(skel.text(prog))
        if probs:
            return {'state': 'violation', 'detail': probs[:5],
                    'replay': {'module': 'vf.props.c07', 'fn': 'replay_static', 'kwargs': {'spec': [list(x) for x in spec], 'scope': scope}}}
    multi = 0
    if lo == 0:
        extra = dict(c01.multi_function_programs())
        extra.update(c01.sequence_programs(True))
        for name, (prog, _) in extra.items():
            probs = static_facts(skel.text(prog))
            multi += 1
            if probs:
                return {'state': 'violation', 'detail': probs[:5],
                        'replay': {'module': 'vf.props.c07', 'fn': 'replay_static_multi', 'kwargs': {'name': name}}}
    return {'state': 'ok', 'checked': len(progs) + multi}


def replay_static(spec, scope):
    prog, _ = skel.build(tuple(tuple(x) for x in spec), scope)
    src = skel.text(prog)
    probs = static_facts(src)
    return (not probs), {'source': src, 'problems': probs, 'clause': 'static'}


def replay_static_multi(name):
    extra = dict(c01.multi_function_programs())
    extra.update(c01.sequence_programs(True))
    prog, _ = extra[name]
    src = skel.text(prog)
    probs = static_facts(src)
    return (not probs), {'source': src, 'problems': probs, 'clause': 'static'}


def plan(tier, seed, workdir):
    import bare_script.parser as ps
    import bare_script.model as md
    import bare_script.runtime as rt
    p = Plan('C07', 'exploration')
    p.encode(ps.parse_script, md.lint_script, md.validate_script, rt._execute_script_helper)
    nprog = len(_programs(tier, seed))
    chunk = 1500
    for lo in range(0, nprog, chunk):
        p.add({'kind': 'native', 'id': f'static_{lo}', 'module': 'vf.props.c07', 'fn': 'static_sweep',
               'kwargs': {'tier': tier, 'seed': seed, 'lo': lo, 'hi': min(nprog, lo + chunk)}, 'timeout': 600, 'est': 30},
              family='static', shapes=f'{lo}..{min(nprog, lo + chunk)}')
    # solver-decided consequence clause on a subset of the shapes
    maxbits = 5 if tier == 'quick' else 7
    timeout = 45 if tier == 'quick' else 180
    rng = random.Random(seed)
    specs = list(skel.shape_specs(1)) + c01.special_specs()
    d2 = list(skel.shape_specs(2))
    rng.shuffle(d2)
    specs += d2[:(24 if tier == 'quick' else 320)]
    n = 0
    for spec in specs:
        for scope in ('global', 'function'):
            prog, narr = skel.build(spec, scope)
            c01.add_shape(p, workdir, f'{skel.spec_name(spec)}_{scope[0]}', prog, narr, maxbits, timeout, 'shape', fn='lbl')
            n += 1
    extra = dict(c01.multi_function_programs())
    extra.update(c01.sequence_programs(tier == 'thorough', seed))
    for name, (prog, narr) in extra.items():
        c01.add_shape(p, workdir, name, prog, narr, maxbits, timeout, 'multi', fn='lbl')
        n += 1
    p.extra_coverage.update(static_shapes_checked=nprog, solver_shapes=n,
                            static_note='static clauses are concrete per shape (no solver input exists); exhaustive over the enumerated set: '
                                        'depth<=3 both scopes' + (' + 20000 seeded depth-4 shapes' if tier == 'thorough' else ''))
    p.rule = ('shapes enumerated by the generator; static clauses evaluated natively per shape; the consequence clause (never "Unknown '
              'jump label" for any input) decided by CrossHair per shape over symbolic oracle bits/array lengths')
    p.bounds = [f'oracle draws <= {maxbits}', 'array lengths 0..2', 'static: every nesting shape to depth 3, global and function scope, '
                'multi-function scripts; solver: depth 1, unconditional-continue shapes, a seeded sample of depth 2, multi-function scripts']
    p.stubs = ['ValueArgsError message formatting', 'host functions cc/tt/aa/vv']
    p.outside = ['depth > 3 (depth 4 sampled in thorough)', 'user code that itself uses the reserved __bareScript prefix']
    p.assumptions = ['schema-markdown validate_type', 'CrossHair/z3']
    p.samples = [{'shape': name, 'scope': scope} for name, spec, scope in _programs(tier, seed)[:3000:700]]
    return p
