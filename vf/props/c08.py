"""
C08 jump-level statement semantics: every statement list over the small vocabulary (generator-enumerated, built as plain
dicts) is run by the real execute_script and by the reference machine.  Lists whose control flow depends on a condition
are executed by CrossHair with the condition outcomes symbolic (oracle bits), in batches that share the oracle; lists
with no data-dependent branch have nothing for a solver to range over and are swept natively (reported as such).
"""
import random

from ..engine import Plan
from .. import hgen
from ..hlib import c08lib

CORE = '''
from vf.hlib import c08lib
PROGS = {progs!r}


def core_batch(bits):
    return c08lib.check_batch(PROGS, bits)


def core_vbatch(pvi):
    return c08lib.check_batch(PROGS, [], pvi)
'''


def native_sweep(maxlen, lo, hi):
    progs = [p for p in c08lib.programs(maxlen) if not c08lib.is_symbolic(p)][lo:hi]
    for prog in progs:
        bad = c08lib.check_one(prog, [])
        if bad is not None:
            return {'state': 'violation', 'detail': bad,
                    'replay': {'module': 'vf.props.c08', 'fn': 'replay_one', 'kwargs': {'tokens': list(prog[0]), 'fbody': prog[1], 'bits': []}}}
    return {'state': 'ok', 'checked': len(progs)}


def replay_one(tokens, fbody, bits):
    bad = c08lib.check_one((tuple(tokens), fbody), bits)
    return bad is None, (bad or {})


def plan(tier, seed, workdir):
    import bare_script.runtime as rt
    p = Plan('C08', 'exploration')
    p.encode(rt.execute_script, rt._execute_script_helper, rt._script_function)
    rng = random.Random(seed)
    maxlen = 3 if tier == 'quick' else 4
    maxbits = 4 if tier == 'quick' else 5
    progs = c08lib.programs(maxlen)
    sym = [q for q in progs if c08lib.is_symbolic(q)]
    conc = [q for q in progs if not c08lib.is_symbolic(q)]
    if tier == 'quick':
        # plus a seeded sample of length-4 lists with conditions
        l4 = [q for q in c08lib.programs(4) if len(q[0]) == 4 and c08lib.is_symbolic(q)]
        rng.shuffle(l4)
        sym += l4[:180]
    bsize = 60
    timeout = 240 if tier == 'quick' else 900
    for i in range(0, len(sym), bsize):
        body = CORE.format(progs=sym[i:i + bsize])
        body += hgen.harness('batch', 'bits: List[bool]', [f'len(bits) <= {maxbits}'])
        path = hgen.write_module(workdir, f'c08_b{i // bsize:04d}', body)
        hgen.ch_tasks(p, path, 'batch', timeout, twin_timeout=120, est=60, family='conditional lists', first=repr(sym[i]), n=len(sym[i:i + bsize]))
    vprogs = c08lib.value_programs(3 if tier == 'quick' else 4)
    for i in range(0, len(vprogs), 80):
        body = CORE.format(progs=vprogs[i:i + 80])
        body += hgen.harness('vbatch', 'pvi: int', ['0 <= pvi < 13'], core_call='core_vbatch(pvi)')
        path = hgen.write_module(workdir, f'c08_v{i // 80:03d}', body)
        hgen.ch_tasks(p, path, 'vbatch', timeout, twin_timeout=120, est=60, family='lists whose jump conditions are host values of any type', n=len(vprogs[i:i + 80]))
    chunk = 4000
    for lo in range(0, len(conc), chunk):
        p.add({'kind': 'native', 'id': f'native_{lo}', 'module': 'vf.props.c08', 'fn': 'native_sweep',
               'kwargs': {'maxlen': maxlen, 'lo': lo, 'hi': lo + chunk}, 'timeout': 900, 'est': 30}, family='condition-free lists (native)')
    p.extra_coverage.update(lists_symbolic=len(sym), lists_native=len(conc))
    p.rule = (f'all statement lists of length <= {maxlen} over {c08lib.TOKENS} (+ one-level function ff with 4 bodies when called); '
              'lists containing a conditional jump: CrossHair batch of 60 lists sharing symbolic oracle bits; the rest: native differential sweep')
    p.bounds = [f'list length <= {maxlen}' + (' + 180 seeded length-4 lists' if tier == 'quick' else ''), f'oracle draws <= {maxbits}',
                f'maxStatements {c08lib.LIMIT} (infinite jump loops end both sides with the budget error)', '2 label names, duplicates allowed']
    p.stubs = ['host functions cc/tt', 'ValueArgsError message formatting']
    p.outside = ['lists of length 5-6 and random 40-statement models', 'include statements (C17)', 'expression semantics (C03)']
    p.assumptions = ['reference machine vf/hlib/refvm.py', 'CrossHair/z3']
    p.samples = [{'tokens': list(q[0]), 'function_body': q[1], 'model': c08lib.build(*q)} for q in sym[:2] + conc[:1]]
    return p
