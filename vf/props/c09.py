"""
C09 statement budget: exact, complete, monotone.

Harness per program (concrete text, parsed by the real parser); symbolic: the limit (every integer) and a small loop
input m.  Oracles: (1) RefVM run under the same limit (independent statement counter: top level + functions however
invoked + includes), (2) the monotonicity/prefix contract against the real unlimited run.
"""
import functools

from ..engine import Plan
from .. import hgen

# name -> (main source, virtual files, terminating?)
PROGRAMS = {
    'straight_loop': ('''\
tt(1)
i = 0
while i < mm:
    tt(10 + i)
    i = i + 1
endwhile
tt(2)
''', {}, True),
    'for_break': ('''\
a = arrayNew(5, 6, 7)
for v, ix in a:
    if ix >= mm:
        break
    endif
    tt(v)
endfor
tt(9)
return ix
''', {}, True),
    'recursion': ('''\
function rec(n):
    tt(n)
    if n > 0:
        return 1 + rec(n - 1)
    endif
    return 0
endfunction
tt(100)
r = rec(mm)
tt(r)
''', {}, True),
    'callbacks': ('''\
function cmp(a, b):
    tt(a)
    return systemCompare(a, b)
endfunction
function hit(v):
    tt(v)
    return v == mm
endfunction
function add(a, b):
    return a + b
endfunction
tt(100)
s = arraySort(arrayNew(3, 1, 2), cmp)
k = arrayIndexOf(s, hit)
l = arrayLastIndexOf(s, hit)
pp = systemPartial(add, 5)
tt(pp(k))
tt(200)
''', {}, True),
    'empty_fn_last': ('''\
function nop():
endfunction
function nop2(v):
endfunction
tt(1)
i = 0
while i < mm:
    nop()
    i = i + 1
endwhile
arrayIndexOf(arrayNew(1, 2), nop2)
nop()
''', {}, True),
    'data_filter': ('''\
function ff(x):
    j = 0
    while j < x:
        j = j + 1
    endwhile
    tt(j)
    return j < 2
endfunction
d = arrayNew(objectNew('x', 1), objectNew('x', mm))
tt(100)
f1 = dataFilter(d, 'ff(x)')
tt(arrayLength(f1))
tt(200)
''', {}, True),
    'data_filter_vars': ('''\
function ff(x):
    j = 0
    while j < x:
        j = j + 1
    endwhile
    tt(j)
    return j < 2
endfunction
d = arrayNew(objectNew('x', 1), objectNew('x', mm))
tt(100)
f2 = dataFilter(d, 'ff(x + k)', objectNew('k', 1))
tt(arrayLength(f2))
tt(200)
''', {}, True),
    'data_calc_vars': ('''\
function ff(x):
    j = 0
    while j < x:
        j = j + 1
    endwhile
    tt(j)
    return j < 2
endfunction
d = arrayNew(objectNew('x', 1), objectNew('x', mm))
tt(100)
dataCalculatedField(d, 'y', 'ff(x) || kk', objectNew('kk', 3))
tt(200)
''', {}, True),
    'data_join_vars': ('''\
function ff(x):
    j = 0
    while j < x:
        j = j + 1
    endwhile
    tt(j)
    return j < 2
endfunction
d = arrayNew(objectNew('x', 1), objectNew('x', mm))
tt(100)
jj = dataJoin(d, arrayNew(objectNew('x', 1, 'z', 5)), 'if(ff(x), x, kk)', 'x', false, objectNew('kk', 7))
tt(arrayLength(jj))
tt(200)
''', {}, True),
    'includes': ('''\
tt(1)
include 'a/one.bare'
tt(2)
include 'a/two.bare'
tt(3)
''', {
        'a/one.bare': "tt(10)\ninclude 'two.bare'\ntt(11)\n",
        'a/two.bare': "i = 0\nwhile i < mm:\n    tt(20 + i)\n    i = i + 1\nendwhile\ninclude 'b/three.bare'\n",
        'a/b/three.bare': "tt(30)\nreturn\ntt(31)\n",
    }, True),
    'adjacent_includes': ('''\
tt(1)
include 'a/two.bare'
include 'a/one.bare'
include 'a/two.bare'
tt(2)
''', {
        'a/one.bare': "tt(10)\ninclude 'two.bare'\ntt(11)\n",
        'a/two.bare': "i = 0\nwhile i < mm:\n    tt(20 + i)\n    i = i + 1\nendwhile\ntt(29)\n",
    }, True),
    'partial_under_copy': ('''\
function work(aa, bb):
    j = 0
    while j < bb:
        j = j + 1
    endwhile
    tt(aa + j)
    return j
endfunction
include 'mk.bare'
tt(1)
r1 = pp(mm)
r2 = pp(1)
dd = arrayNew(objectNew('x', 1))
dataCalculatedField(dd, 'y', 'qq(x)', objectNew('qq', systemPartial(work, 7)))
r3 = pp(2)
tt(2)
''', {'mk.bare': "pp = systemPartial(work, 5)\ntt(50)\n"}, True),
    'include_in_function': ('''\
function ld():
    include 'lib.bare'
    return mm
endfunction
tt(1)
x = ld()
tt(x)
''', {'lib.bare': "k = 0\nwhile k < mm:\n    k = k + 1\nendwhile\ntt(40 + k)\n"}, True),
    'forever': ('''\
tt(1)
while true:
    tt(2)
endwhile
''', {}, False),
    'self_include': ('''\
tt(1)
include 'self.bare'
''', {'self.bare': "tt(5)\ninclude 'self.bare'\n"}, False),
    'mutual_recursion': ('''\
function ping(n):
    return pong(n + 1)
endfunction
function pong(n):
    tt(n)
    return ping(n)
endfunction
ping(0)
''', {}, False),
}

CORE = '''
import functools
from bare_script import parse_script, execute_script
from bare_script.runtime import BareScriptRuntimeError
from bare_script.options import url_file_relative
from vf.hlib.refvm import RefVM
from vf.hlib.util import norm_error

SRC = {src!r}
FS = {fs!r}
TERMINATING = {term!r}
REUSE = {reuse!r}
MODEL = parse_script(SRC)


def _fetch(req):
    return FS.get(req['url'])


def run_real(limit, m):
    tr = []

    def tt(args, options):
        tr.append((args[0] if args else None, options['statementCount']))
    opts = {{'globals': {{'tt': tt, 'mm': m}}, 'maxStatements': limit, 'fetchFn': _fetch}}
    try:
        r = ('ok', execute_script(MODEL, opts))
    except BareScriptRuntimeError as e:
        r = ('err', norm_error(e))
    return r, tr, opts['statementCount']


def run_real_reused(limit, m):
    # the same options object used for two runs in a row: the second run must start its own count
    tr = []

    def tt(args, options):
        tr.append((args[0] if args else None, options['statementCount']))
    opts = {{'globals': {{'tt': tt, 'mm': m}}, 'maxStatements': limit, 'fetchFn': _fetch}}
    for _ in range(2):
        del tr[:]
        opts['globals']['mm'] = m
        try:
            r = ('ok', execute_script(MODEL, opts))
        except BareScriptRuntimeError as e:
            r = ('err', norm_error(e))
    return r, tr, opts['statementCount']


def run_ref(limit, m):
    tr = []
    vm = RefVM({{'mm': m}}, limit=limit, fetch=_fetch, resolve=lambda base: functools.partial(url_file_relative, base))

    def tt(args, options):
        tr.append((args[0] if args else None, vm.count))
    vm.g['tt'] = tt
    try:
        r = ('ok', vm.run(MODEL))
    except BareScriptRuntimeError as e:
        r = ('err', norm_error(e))
    return r, tr, vm.count


def core_budget(limit, m={m!r}):
    info = {{'limit': limit, 'm': m}}
    real = run_real(limit, m)
    ref = run_ref(limit, m)
    if real != ref:
        info.update(clause='count/abort vs reference machine', real=repr(real)[:400], reference=repr(ref)[:400])
        k = 0
        while k < len(real[1]) and k < len(ref[1]) and real[1][k] == ref[1][k]:
            k += 1
        info['first_trace_divergence'] = k
        info['diverges_after_effect'] = repr(ref[1][k - 1]) if k > 0 else None
        return False, info
    if REUSE:
        again = run_real_reused(limit, m)
        if again != real:
            info.update(clause='a second run with the same options object must count from zero again', first=repr(real)[:300], second=repr(again)[:300])
            return False, info
    if TERMINATING:
        full = run_real(0, m)
        n = full[2]
        if limit <= 0 or limit >= n:
            if real != full:
                info.update(clause='limit >= N must behave as unlimited', real=repr(real)[:400], unlimited=repr(full)[:400])
                return False, info
        else:
            ok = (real[0] == ('err', 'Exceeded maximum script statements') and real[2] == limit + 1
                  and real[1] == full[1][:len(real[1])] and all(c <= limit for _, c in real[1]))
            if not ok:
                info.update(clause='limit < N: abort exactly at statement limit+1, effects a prefix', real=repr(real)[:400],
                            unlimited=repr(full)[:400])
                return False, info
    else:
        if limit >= 1 and real[0][0] != 'err':
            info.update(clause='non-terminating program must be aborted', real=repr(real)[:400])
            return False, info
    return True, info
'''


def plan(tier, seed, workdir):
    import bare_script.runtime as rt
    import bare_script.data as data
    import bare_script.library as lib
    p = Plan('C09', 'exploration')
    p.encode(rt.execute_script, rt._execute_script_helper, rt._script_function, data.filter_data, data.add_calculated_field,
             lib._array_sort, lib._array_index_of, lib._array_last_index_of)
    mmax = 3 if tier == 'quick' else 6
    nt_limit = 40 if tier == 'quick' else 120
    timeout = 150 if tier == 'quick' else 900
    for name, (src, fs, term) in PROGRAMS.items():
        for m in (range(mmax + 1) if term else [0]):
            body = CORE.format(src=src, fs=fs, term=term, m=m, reuse=(name in ('straight_loop', 'recursion', 'includes') and m <= 1))
            pre = [] if term else [f'1 <= limit <= {nt_limit}']
            body += hgen.harness('budget', 'limit: int', pre, core_call='core_budget(limit)')
            path = hgen.write_module(workdir, f'c09_{name}_m{m}', body)
            hgen.ch_tasks(p, path, 'budget', timeout, program=name, m=m, source=src, files=fs, terminating=term)
    p.rule = ('one CrossHair condition per (program, loop input m); symbolic: maxStatements (every integer for terminating '
              'programs); a condition is distinct/non-trivial when its reachability twin is refuted and the '
              'solver decided it (all paths confirmed, or a counterexample that replays natively)')
    p.bounds = [f'm enumerated 0..{mmax} (concrete: a symbolic m meets float literals and never confirms); limit: all integers',
                f'non-terminating programs: 1 <= limit <= {nt_limit} (each limit value is one path)',
                f'{len(PROGRAMS)} programs: loops, recursion, sort/indexOf/partial callbacks, data-expression callbacks with and '
                'without variables, nested includes (depth 3), include inside a function, empty functions, self-include']
    p.stubs = ['ValueArgsError message formatting', 'virtual fetchFn over an in-memory file table', 'host function tt()']
    p.outside = ['programs outside the suite', 'systemFetch-driven execution', 'limits above the bound for non-terminating programs']
    p.assumptions = ['CrossHair models of int/list/dict/str', 'z3', 'the reference machine vf/hlib/refvm.py is the documented semantics',
                     'evaluate_expression is shared by both sides (C03 checks it)']
    p.samples = [{'program': n, 'source': s[0]} for n, s in list(PROGRAMS.items())[:3]]
    return p
