"""
C10 source layout does not change the parsed program.

E2 (for-all over strings, z3 sequence/regex theory on the LIVE parser regexes): whitespace-closure of every line-level
statement pattern, comment/continuation invariance, the line-separator language, the argument-split language.  A `sat`
answer is only a candidate: it is replayed through parse_script before anything is reported.
E1 (solver-chosen rewrites, low leverage, stated): CrossHair picks line ends, chunking, indentation, trailing whitespace,
inserted blank/comment lines and the gap at which a line is continued with a backslash; every path re-parses a concrete
text and compares with the canonical model.
"""
import re

from ..engine import Plan
from .. import hgen

TEMPLATES = {
    'ASSIGNMENT': ['{L}'], 'FUNCTION_BEGIN': ['{L}', 'endfunction'], 'FUNCTION_END': ['function ff():', '{L}'],
    'IF_BEGIN': ['{L}', 'endif'], 'IF_ELSE_IF': ['if 1:', '{L}', 'endif'], 'IF_ELSE': ['if 1:', '{L}', 'endif'], 'IF_END': ['if 1:', '{L}'],
    'WHILE_BEGIN': ['{L}', 'endwhile'], 'WHILE_END': ['while 1:', '{L}'], 'FOR_BEGIN': ['{L}', 'endfor'], 'FOR_END': ['for vv in aa:', '{L}'],
    'BREAK': ['while 1:', '{L}', 'endwhile'], 'CONTINUE': ['while 1:', '{L}', 'endwhile'], 'LABEL': ['{L}'], 'JUMP': ['{L}'], 'RETURN': ['{L}'],
    'INCLUDE': ['{L}'], 'INCLUDE_SYSTEM': ['{L}'], 'COMMENT': ['aa = 1', '{L}', 'bb = 2'],
}


def _outcome(lines):
    from bare_script import parse_script
    from bare_script.parser import BareScriptParserError
    try:
        return ('ok', parse_script(lines))
    except BareScriptParserError as exc:
        return ('err', exc.error)


def replay_ws(name, s, t):
    """API-level replay: the program with line s and the program with the re-spaced line t must parse to the same outcome."""
    tpl = TEMPLATES[name]
    a = _outcome([x.replace('{L}', s) for x in tpl])
    b = _outcome([x.replace('{L}', t) for x in tpl])
    return a == b, {'clause': 'indentation/trailing whitespace changes the parse', 'pattern': name, 'line': s, 'respaced': t,
                    'parse_line': repr(a)[:300], 'parse_respaced': repr(b)[:300]}


def _solver():
    import z3
    s = z3.Solver()
    s.set('timeout', 120000)
    return s


def _nice():
    import z3
    from .. import rx2z3 as R
    return z3.Star(R.union([R.re_range(0x20, 0x7e), R.re_char(9)]))


def lemma_ws_closure(name):
    """forall s in L(P), w, w' in [ \\t]*:  w.s.w' in L(P)   (P = live parser._R_SCRIPT_<name>)"""
    import z3
    import bare_script.parser as P
    from .. import rx2z3 as R
    try:
        rx = R.Rx(getattr(P, '_R_SCRIPT_' + name), ascii_only=True)
    except R.Unsupported as exc:
        return {'state': 'skipped', 'why': f'pattern outside the translator subset: {exc}'}
    if not (rx.start and rx.end):
        return {'state': 'skipped', 'why': 'pattern is not anchored on both sides any more (structure changed)'}
    bad = R.validate(rx, SAMPLES, 'fullline')
    if bad:
        return {'state': 'error', 'error': f'translator validation mismatch on {bad[:2]}'}
    lang = rx.lang_fullline()
    ws = z3.Star(R.union([R.re_char(32), R.re_char(9)]))
    s, w1, w2 = z3.String('s'), z3.String('w1'), z3.String('w2')
    sol = _solver()
    t = z3.Concat(w1, s, w2)
    sol.add(z3.InRe(s, lang), z3.InRe(s, _nice()), z3.InRe(w1, ws), z3.InRe(w2, ws), z3.Not(z3.InRe(t, lang)),
            z3.Length(s) <= 24, z3.Length(w1) <= 2, z3.Length(w2) <= 2)
    tried = []
    for _ in range(12):
        r = str(sol.check())
        if r == 'unsat':
            if tried:
                return {'state': 'inconclusive', 'why': f'{len(tried)} regex-level candidates, none changes the parse: {tried[:3]}'}
            return {'state': 'unsat', 'lemma': f'{name}: closed under leading/trailing blanks (|s|<=24, blanks<=2 each side)'}
        if r != 'sat':
            return {'state': 'inconclusive', 'why': 'solver answered ' + r}
        m = sol.model()
        sv, tv = R.py_str(R.model_str(m, s)), R.py_str(R.model_str(m, w1)) + R.py_str(R.model_str(m, s)) + R.py_str(R.model_str(m, w2))
        ok, info = replay_ws(name, sv, tv)
        if not ok:
            return {'state': 'violation', 'detail': info, 'replay': {'module': 'vf.props.c10', 'fn': 'replay_ws', 'kwargs': {'name': name, 's': sv, 't': tv}}}
        tried.append((sv, tv))
        sol.add(z3.Or(s != R.strval(sv), w1 != m.eval(w1, True), w2 != m.eval(w2, True)))
    return {'state': 'inconclusive', 'why': f'regex-level candidates exist but none changes the parse (first: {tried[:2]})'}


SAMPLES = ['', ' ', 'a = 1', '  a=1  ', 'endif', '\tendif \t', 'endif x', '# c', '   ', 'if x:', 'if x :  ', 'function f(a , b):',
           'async function f():', 'jump lbl', 'jumpif (x) lbl', 'return', 'return  x ', "include 'a'", 'include <a>', 'for v, i in x:',
           'while x:', 'break', 'continue ', 'lbl:', 'a\\', 'a \\  ', 'x ', ' endif', 'a\r', 'endif\r', 'return \r']


def replay_comment(s, t):
    a = _outcome(['aa = 1', s, 'bb = 2'])
    b = _outcome(['aa = 1', t, 'bb = 2'])
    return a == b, {'clause': 'comment/blank status depends on indentation', 'line': s, 'respaced': t, 'a': repr(a)[:200], 'b': repr(b)[:200]}


def lemma_comment():
    """comment-ness is invariant under adding AND removing indentation: s in L <=> w.s in L"""
    import z3
    import bare_script.parser as P
    from .. import rx2z3 as R
    try:
        rx = R.Rx(P._R_SCRIPT_COMMENT)
    except R.Unsupported as exc:
        return {'state': 'skipped', 'why': str(exc)}
    bad = R.validate(rx, SAMPLES, 'fullline')
    if bad:
        return {'state': 'error', 'error': f'translator validation mismatch on {bad[:2]}'}
    lang = rx.lang_fullline()
    ws = z3.Star(R.union([R.re_char(32), R.re_char(9)]))
    s, w = z3.String('s'), z3.String('w')
    sol = _solver()
    sol.add(z3.InRe(s, _nice()), z3.InRe(w, ws), z3.Length(s) <= 12, z3.Length(w) <= 3,
            z3.Xor(z3.InRe(s, lang), z3.InRe(z3.Concat(w, s), lang)))
    r = str(sol.check())
    if r == 'unsat':
        return {'state': 'unsat', 'lemma': 'comment/blank classification invariant under indentation'}
    if r != 'sat':
        return {'state': 'inconclusive', 'why': r}
    m = sol.model()
    sv, wv = R.py_str(R.model_str(m, s)), R.py_str(R.model_str(m, w))
    ok, info = replay_comment(sv, wv + sv)
    if ok:
        return {'state': 'inconclusive', 'why': f'regex-level candidate {sv!r} does not change the parse'}
    return {'state': 'violation', 'detail': info, 'replay': {'module': 'vf.props.c10', 'fn': 'replay_comment', 'kwargs': {'s': sv, 't': wv + sv}}}


def replay_split(text):
    a = _outcome(text)
    b = _outcome(text.replace('\r\n', '\n'))
    return a == b, {'clause': 'CRLF and LF line ends parse differently', 'text': text, 'crlf': repr(a)[:200], 'lf': repr(b)[:200]}


def lemma_line_split():
    """the separator language is exactly { LF, CR LF }"""
    import z3
    import bare_script.parser as P
    from .. import rx2z3 as R
    try:
        rx = R.Rx(P._R_SCRIPT_LINE_SPLIT)
    except R.Unsupported as exc:
        return {'state': 'skipped', 'why': str(exc)}
    if rx.start or rx.end:
        return {'state': 'skipped', 'why': 'separator pattern is anchored (structure changed)'}
    want = R.union([R.re_char(10), z3.Concat(R.re_char(13), R.re_char(10))])
    s = z3.String('s')
    sol = _solver()
    sol.add(z3.Xor(z3.InRe(s, rx.body), z3.InRe(s, want)), z3.Length(s) <= 6)
    r = str(sol.check())
    if r == 'unsat':
        return {'state': 'unsat', 'lemma': 'L(line separator) == {LF, CRLF}'}
    if r != 'sat':
        return {'state': 'inconclusive', 'why': r}
    sep = R.py_str(R.model_str(sol.model(), s))
    text = 'aa = 1' + sep + 'bb = 2' + sep + 'return  ' + sep
    for cand in (text, 'aa = 1\r\nbb = 2\r\n', 'return \r\naa = 1\r\n'):
        ok, info = replay_split(cand)
        if not ok:
            return {'state': 'violation', 'detail': info, 'replay': {'module': 'vf.props.c10', 'fn': 'replay_split', 'kwargs': {'text': cand}}}
    return {'state': 'inconclusive', 'why': f'separator language differs ({sep!r}) but CRLF/LF texts parse alike'}


def replay_continuation(s, t):
    a = _outcome([s, 'bb'])
    b = _outcome([t, 'bb'])
    return a == b, {'clause': 'trailing whitespace after a continuation backslash changes the parse', 'line': s, 'respaced': t,
                    'a': repr(a)[:200], 'b': repr(b)[:200]}


def lemma_continuation():
    """a line is a continuation line <=> the same line with extra trailing blanks is"""
    import z3
    import bare_script.parser as P
    from .. import rx2z3 as R
    try:
        rx = R.Rx(P._R_SCRIPT_CONTINUATION)
    except R.Unsupported as exc:
        return {'state': 'skipped', 'why': str(exc)}
    lang = z3.Intersect(rx.lang_search(), R.NOT_NL_STAR)
    ws = z3.Star(R.union([R.re_char(32), R.re_char(9)]))
    s, w = z3.String('s'), z3.String('w')
    sol = _solver()
    sol.add(z3.InRe(s, _nice()), z3.InRe(w, ws), z3.Length(s) <= 10, z3.Length(w) <= 3,
            z3.Xor(z3.InRe(s, lang), z3.InRe(z3.Concat(s, w), lang)))
    r = str(sol.check())
    if r == 'unsat':
        # and it is exactly "ends in backslash + blanks"
        want = z3.Concat(R.NOT_NL_STAR, R.re_char(92), ws)
        sol2 = _solver()
        sol2.add(z3.InRe(s, _nice()), z3.Length(s) <= 10, z3.Xor(z3.InRe(s, lang), z3.InRe(s, want)))
        r2 = str(sol2.check())
        if r2 == 'unsat':
            return {'state': 'unsat', 'lemma': 'continuation <=> ends in backslash followed by blanks only; invariant under trailing blanks'}
        if r2 == 'sat':
            sv = R.py_str(R.model_str(sol2.model(), s))
            ok, info = replay_continuation('aa = 1 + \\', sv)
            return {'state': 'inconclusive', 'why': f'continuation language is not "backslash + blanks" (witness {sv!r}); no layout pair to replay'}
        return {'state': 'inconclusive', 'why': r2}
    if r != 'sat':
        return {'state': 'inconclusive', 'why': r}
    m = sol.model()
    sv, wv = R.py_str(R.model_str(m, s)), R.py_str(R.model_str(m, w))
    ok, info = replay_continuation(sv, sv + wv)
    if ok:
        return {'state': 'inconclusive', 'why': f'regex-level candidate {sv!r} does not change the parse'}
    return {'state': 'violation', 'detail': info, 'replay': {'module': 'vf.props.c10', 'fn': 'replay_continuation', 'kwargs': {'s': sv, 't': sv + wv}}}


def replay_args(args_text):
    from bare_script import parse_script
    canon = re.sub(r'\s+', '', args_text).replace(',', ', ')
    a = _outcome([f'function ff({canon}):', 'endfunction'])
    b = _outcome([f'function ff({args_text}):', 'endfunction'])
    return a == b, {'clause': 'whitespace inside a parameter list changes the parsed parameters', 'args': args_text, 'canonical': repr(a)[:200],
                    'spaced': repr(b)[:200]}


def lemma_arg_split():
    """every parameter list the function-begin pattern accepts splits into identifiers: L(args) within ident (SPLIT ident)*"""
    import z3
    import bare_script.parser as P
    from .. import rx2z3 as R
    try:
        fb = R.Rx(P._R_SCRIPT_FUNCTION_BEGIN, ascii_only=True)
        sp_ = R.Rx(P._R_SCRIPT_FUNCTION_ARG_SPLIT, ascii_only=True)
        args = fb.group('args')
    except (R.Unsupported, KeyError) as exc:
        return {'state': 'skipped', 'why': f'structure changed: {exc}'}
    ident = R.Rx(re.compile(r'[A-Za-z_]\w*'), ascii_only=True).body
    want = z3.Concat(ident, z3.Star(z3.Concat(sp_.body, ident)))
    s = z3.String('s')
    sol = _solver()
    sol.add(z3.InRe(s, args), z3.InRe(s, _nice()), z3.Length(s) <= 9, z3.Not(z3.InRe(s, want)))
    for _ in range(6):
        r = str(sol.check())
        if r == 'unsat':
            return {'state': 'unsat', 'lemma': 'L(args group) is covered by ident (ARG_SPLIT ident)*'}
        if r != 'sat':
            return {'state': 'inconclusive', 'why': r}
        sv = R.py_str(R.model_str(sol.model(), s))
        ok, info = replay_args(sv)
        if not ok:
            return {'state': 'violation', 'detail': info, 'replay': {'module': 'vf.props.c10', 'fn': 'replay_args', 'kwargs': {'args_text': sv}}}
        sol.add(s != R.strval(sv))
    return {'state': 'inconclusive', 'why': 'regex-level candidates do not change the parse'}


# ---------------------------------------------------------------------------------------------------------------------
# E1: solver-chosen layout rewrites of a marked corpus ('~' optional gap, ' ' mandatory gap; both may carry a continuation)

CORPUS = {
    'p1': '''\
function ff~(~aa~,~bb~...~)~:
    xx~=~aa~+~ff2~(~1~,~'s t'~)
    if xx~>=~2~&&~!bb~:
        return xx
    elif xx~:
        jump done
    else~:
        yy~=~[a b]~*~-3
    endif
    done~:
    return
endfunction
zz~=~ff~(~1~)
''',
    'p2': '''\
include 'lib.bare'
include <sys.bare>
async function gg~(~)~:
    for vv~,~ii in arr~:
        while ii~<~3~:
            ii~=~ii~+~1
            if ii~==~2~:
                continue
            endif
            break
        endwhile
    endfor
    jumpif (~vv~) lbl
    lbl~:
    return arrayNew~(~1~,~"a b"~,~null~)
endfunction
gg~(~)
''',
}

CORPUS['p3'] = "xx~=~'a" + chr(0x85) + "b" + chr(0x2028) + "c" + chr(12) + "d" + chr(0x1c) + "e" + chr(13) + "f'" + chr(10) + \
    "if xx~:" + chr(10) + "    yy~=~stringLength~(~xx~)~+~1" + chr(10) + "endif" + chr(10) + "return yy" + chr(10)

CORE = '''
from bare_script import parse_script, parse_expression
from bare_script.parser import BareScriptParserError

MARKED = {marked!r}
LINES = MARKED.rstrip(chr(10)).split(chr(10))
CANON = [ln.replace('~', '') for ln in LINES]
MODEL = parse_script(chr(10).join(CANON) + chr(10))


def _gaps(line):
    # gap positions: every '~' and every single blank between two non-blank characters outside the indentation and quotes
    out, quote = [], None
    body_start = len(line) - len(line.lstrip(' '))
    for i, c in enumerate(line):
        if i < body_start:
            continue
        if quote:
            if c == quote:
                quote = None
            continue
        if c in ('"', "'") or c == '[':
            quote = ']' if c == '[' else c
            continue
        if c == '~' or (c == ' ' and line[i - 1] != ' ' and i + 1 < len(line) and line[i + 1] != ' '):
            out.append(i)
    return out


def _parse(text_or_chunks):
    try:
        return ('ok', parse_script(text_or_chunks))
    except BareScriptParserError as exc:
        return ('err', str(exc))


def _check(lines, crlf, chunks, what, kind=0):
    sep = chr(13) + chr(10) if crlf else chr(10)
    if chunks is None:
        got = _parse(sep.join(lines) + sep)
    else:
        parts = [sep.join(c) + (sep if k + 1 < len(chunks) else '') for k, c in enumerate(chunks)]
        # the documented input type is any iterable of strings: list, tuple, one-shot iterator, generator
        arg = parts if kind == 0 else (tuple(parts) if kind == 1 else (iter(parts) if kind == 2 else (x for x in parts)))
        got = _parse(arg)
    if got != ('ok', MODEL):
        return False, {{'clause': what, 'lines': lines, 'crlf': crlf, 'chunks': chunks, 'got': repr(got)[:300]}}
    return True, {{}}


def core_ws(crlf, li, indent, trail):
    # indentation / trailing whitespace of one line (or all lines when li == len)
    ind = ['', '  ', chr(9), '      '][indent]
    tr = ['', ' ', chr(9), ' ' + chr(9) + ' '][trail]
    lines = []
    for k, ln in enumerate(CANON):
        if li == len(CANON) or k == li:
            lines.append(ind + ln.strip() + tr)
        else:
            lines.append(ln)
    return _check(lines, crlf, None, 'indentation / trailing whitespace / line ends')


def core_insert(crlf, pos, kind):
    extra = ['', '   ', '# a comment', '    # indented comment ' + chr(92)][kind]
    lines = CANON[:pos] + [extra] + CANON[pos:]
    return _check(lines, crlf, None, 'inserted blank/comment line')


def core_chunk(crlf, c1, c2, kind=0):
    cuts = sorted(set([c1, c2]))
    chunks, prev = [], 0
    for c in cuts + [len(CANON)]:
        if c > prev:
            chunks.append(CANON[prev:c])
            prev = c
    return _check(CANON, crlf, chunks, 'chunking at line boundaries', kind)


def _poison(x):
    if isinstance(x, dict):
        for v in list(x.values()):
            _poison(v)
        x['__poison__'] = 1
    elif isinstance(x, list):
        for v in x:
            _poison(v)
        x.append('__poison__')


def core_state(crlf, li):
    # parse_script / parse_expression keep no state between calls: editing a returned model must not show in a later parse
    import copy
    sep = chr(13) + chr(10) if crlf else chr(10)
    text = sep.join(CANON) + sep
    first = parse_script(text)
    want = copy.deepcopy(first)
    _poison(first)
    second = parse_script(text)
    if second != want:
        return False, {{'clause': 'a second parse of the same text is affected by edits to the first result (parser keeps state)', 'second': repr(second)[:300]}}
    line = CANON[li].strip()
    if '=' in line and not line.startswith(('if', 'elif', 'while', 'for', 'jumpif')):
        etext = line.split('=', 1)[1]
        try:
            e1 = parse_expression(etext)
        except BareScriptParserError:
            return True, {{}}
        w = copy.deepcopy(e1)
        _poison(e1)
        if parse_expression(etext) != w:
            return False, {{'clause': 'parse_expression keeps state between calls', 'expr': etext}}
    return True, {{}}


def core_cont(crlf, li, gi, mid):
    line = LINES[li]
    gaps = _gaps(line)
    if gi >= len(gaps):
        return True, {{}}
    g = gaps[gi]
    head, tail = line[:g].replace('~', ''), line[g + 1:].replace('~', '')
    broken = [head + ' ' + chr(92)] + ([['   ', '# inside a continued line'][mid - 1]] if mid else []) + ['        ' + tail]
    lines = CANON[:li] + broken + CANON[li + 1:]
    return _check(lines, crlf, None, 'continuation at an inter-token gap')
'''


def native_stateless():
    """parse_script / parse_expression keep no state between calls (run natively: CrossHair neutralises functools caches, so a
    memoised parser would look stateless under it)"""
    import copy
    from bare_script import parse_script, parse_expression

    def poison(x):
        if isinstance(x, dict):
            for v in list(x.values()):
                poison(v)
            x['__poison__'] = 1
        elif isinstance(x, list):
            for v in x:
                poison(v)
            x.append('__poison__')
    n = 0
    for name, marked in CORPUS.items():
        text = marked.replace('~', '')
        for sep in ('\n', '\r\n'):
            t = text.replace('\n', sep)
            first = parse_script(t)
            want = copy.deepcopy(first)
            poison(first)
            if parse_script(t) != want:
                return {'state': 'violation', 'detail': {'clause': 'a second parse of the same text is affected by edits to the first result (the parser keeps state)',
                                                         'program': name}, 'replay': {'module': 'vf.props.c10', 'fn': 'replay_stateless', 'kwargs': {}}}
            n += 1
    for etext in ('aa + 1', 'ff(1, bb) * 2', "'s' + xx", '(aa)', '-aa', 'if(aa, 1, 2)'):
        e1 = parse_expression(etext)
        want = copy.deepcopy(e1)
        poison(e1)
        if parse_expression(etext) != want:
            return {'state': 'violation', 'detail': {'clause': 'parse_expression keeps state between calls', 'expr': etext},
                    'replay': {'module': 'vf.props.c10', 'fn': 'replay_stateless', 'kwargs': {}}}
        n += 1
    return {'state': 'ok', 'checked': n}


def replay_stateless():
    r = native_stateless()
    return r['state'] == 'ok', r.get('detail', {})


def plan(tier, seed, workdir):
    import bare_script.parser as ps
    p = Plan('C10', 'exploration')
    p.encode(ps.parse_script, ps.parse_expression)
    for name in TEMPLATES:
        if name == 'COMMENT':
            continue
        p.add({'kind': 'lemma', 'id': f'lemma_ws_{name}', 'module': 'vf.props.c10', 'fn': 'lemma_ws_closure', 'kwargs': {'name': name},
               'timeout': 300, 'est': 20}, family='E2 whitespace closure', pattern='_R_SCRIPT_' + name)
    for fn in ('lemma_comment', 'lemma_line_split', 'lemma_continuation', 'lemma_arg_split'):
        p.add({'kind': 'lemma', 'id': fn, 'module': 'vf.props.c10', 'fn': fn, 'kwargs': {}, 'timeout': 300, 'est': 20}, family='E2 ' + fn)
    p.add({'kind': 'native', 'id': 'stateless', 'module': 'vf.props.c10', 'fn': 'native_stateless', 'kwargs': {}, 'timeout': 120, 'est': 5},
          family='statelessness of parse_script / parse_expression (native: CrossHair neutralises functools caches)')
    timeout = 240 if tier == 'quick' else 1200
    for pname, marked in CORPUS.items():
        n = len(marked.rstrip('\n').split('\n'))
        maxgap = max(len([1 for c in ln if c in '~ ']) for ln in marked.split('\n'))
        body = CORE.format(marked=marked)
        body += hgen.harness('ws', 'crlf: bool, li: int, indent: int, trail: int', [f'0 <= li <= {n}', '0 <= indent <= 3', '0 <= trail <= 3'],
                             core_call='core_ws(crlf, li, indent, trail)')
        body += hgen.harness('insert', 'crlf: bool, pos: int, kind: int', [f'0 <= pos <= {n}', '0 <= kind <= 2'],
                             core_call='core_insert(crlf, pos, kind)')
        body += hgen.harness('chunk', 'crlf: bool, c1: int, c2: int, kind: int', [f'0 <= c1 <= c2 <= {n}', '0 <= kind <= 3'], core_call='core_chunk(crlf, c1, c2, kind)')
        body += hgen.harness('state', 'crlf: bool, li: int', [f'0 <= li < {n}'], core_call='core_state(crlf, li)')
        path = hgen.write_module(workdir, f'c10_{pname}', body)
        for fn in ('ws', 'insert', 'chunk', 'state'):
            hgen.ch_tasks(p, path, fn, timeout, twin_timeout=60, est=timeout / 3, family='E1 rewrite ' + fn, program=pname)
        # continuation: one condition per line so that they spread over the cores
        for li in range(n):
            body2 = CORE.format(marked=marked)
            body2 += hgen.harness('cont', 'crlf: bool, gi: int, mid: int', [f'0 <= gi < {maxgap}', '0 <= mid <= 2'],
                                  core_call=f'core_cont(crlf, {li}, gi, mid)')
            path2 = hgen.write_module(workdir, f'c10_{pname}_cont{li:02d}', body2)
            hgen.ch_tasks(p, path2, 'cont', timeout, twin_timeout=60, est=30, family='E1 continuation', program=pname, line=li)
    p.rule = ('E2: one z3 query per live statement pattern (closure under leading/trailing blanks) + 4 language lemmas; E1: one CrossHair '
              'condition per (program, rewrite kind[, line]) with the rewrite chosen by symbolic ints/bools')
    p.bounds = ['E2: |s| <= 24, blanks <= 2-3; all strings printable ASCII + TAB, so \\w/\\d/\\s are modelled over ASCII (candidates must replay through parse_script)',
                'E1: 3 marked programs (every statement kind; one with exotic line-break-like characters inside a string literal); one rewrite kind per condition (not combined), CRLF x each; statelessness by editing a returned model before re-parsing']
    p.stubs = []
    p.outside = ['invariance for arbitrary text (symbolic text cannot reach the regex-driven parser)', 'combinations of rewrite kinds',
                 'shipped .bare scripts are not rewritten (only the marked corpus)']
    p.assumptions = ['z3 sequence/regex theory', 'rx2z3 translation (validated each run on sample lines against the real regex objects)',
                     'CrossHair for the E1 enumeration']
    p.samples = [{'lemma': 'ws closure', 'pattern': ps._R_SCRIPT_IF_BEGIN.pattern}, {'rewrite': 'continuation', 'program': CORPUS['p1'][:120]}]
    return p
