"""
C11 value comparison is a total preorder and every consumer agrees with it.

E2: the real AST of value_compare / value_type is executed symbolically (vf.symex) over an algebraic datatype of
BareScript values (unbounded ints, reals, strings; containers of <= 2 elements, nesting by levels).  z3 decides the
order laws and the equivalence with an independent specification of the documented order for ALL such values.
The translation is validated every run against the real function on concrete values (repository test vectors + pool).
E1: CrossHair checks the consumers (relational operators, arraySort, mathMin/mathMax) against systemCompare on typed
symbolic operands.
"""
import datetime
import itertools
import random

from ..engine import Plan
from .. import hgen

TYPE_NAMES = {'Arr': 'array', 'Bool': 'boolean', 'Dt': 'datetime', 'Fn': 'function', 'Null': 'null', 'Int': 'number', 'Float': 'number',
              'Obj': 'object', 'Rx': 'regex', 'Str': 'string', 'Unk': 'unknown'}


def _setup(levels):
    from .. import symex as S
    import bare_script.value as V
    u = S.Universe(levels)

    def stub_norm(interp, args, path):
        v = args[0]
        return v.s.t(v.term)           # documented key map: the normalised instant

    def real(a, b):
        it = S.Interp(u, V, {'value_normalize_datetime': stub_norm})
        r = it.call(V.value_compare, [a, b])
        return it.lift(r), it.errors
    return S, V, u, real


def spec_cmp(S, u, a, b):
    """the documented order, written directly in z3 (independent of the implementation)"""
    import z3
    sa, ta, sb, tb = a.s, a.term, b.s, b.term
    sign = lambda lt, eq: z3.If(lt, z3.IntVal(-1), z3.If(eq, z3.IntVal(0), z3.IntVal(1)))
    num = lambda v: z3.Or(v.is_('Int'), v.is_('Float'))
    tname = lambda v: _typename(z3, v)
    res = sign(tname(a) < tname(b), tname(a) == tname(b))                  # different kinds: by type name
    both = lambda k: z3.And(a.is_(k), b.is_(k))
    if a.level > 0:
        sub = lambda f, g: spec_cmp(S, u, S.Val(u, a.level - 1, f(ta)), S.Val(u, a.level - 1, g(tb)))
        # objects: sorted (key, value) pairs element-wise, then by size
        n, m = sa.on(ta), sb.on(tb)
        k0 = sign(sa.k0(ta) < sb.k0(tb), sa.k0(ta) == sb.k0(tb))
        k1 = sign(sa.k1(ta) < sb.k1(tb), sa.k1(ta) == sb.k1(tb))
        length = sign(n < m, n == m)
        second = z3.If(z3.And(n >= 2, m >= 2), z3.If(k1 != 0, k1, z3.If(sub(sa.v1, sb.v1) != 0, sub(sa.v1, sb.v1), length)), length)
        first = z3.If(z3.And(n >= 1, m >= 1), z3.If(k0 != 0, k0, z3.If(sub(sa.v0, sb.v0) != 0, sub(sa.v0, sb.v0), second)), length)
        res = z3.If(both('Obj'), first, res)
        n, m = sa.an(ta), sb.an(tb)
        length = sign(n < m, n == m)
        second = z3.If(z3.And(n >= 2, m >= 2), z3.If(sub(sa.e1, sb.e1) != 0, sub(sa.e1, sb.e1), length), length)
        first = z3.If(z3.And(n >= 1, m >= 1), z3.If(sub(sa.e0, sb.e0) != 0, sub(sa.e0, sb.e0), second), length)
        res = z3.If(both('Arr'), first, res)
    res = z3.If(both('Dt'), sign(sa.t(ta) < sb.t(tb), sa.t(ta) == sb.t(tb)), res)
    res = z3.If(z3.And(num(a), num(b)), sign(a.num() < b.num(), a.num() == b.num()), res)
    res = z3.If(both('Bool'), sign(z3.And(z3.Not(sa.b(ta)), sb.b(tb)), sa.b(ta) == sb.b(tb)), res)
    res = z3.If(both('Str'), sign(sa.s(ta) < sb.s(tb), sa.s(ta) == sb.s(tb)), res)
    res = z3.If(b.is_('Null'), z3.IntVal(1), res)
    res = z3.If(a.is_('Null'), z3.If(b.is_('Null'), z3.IntVal(0), z3.IntVal(-1)), res)      # null before everything
    return res


def _typename(z3, v):
    t = z3.StringVal('unknown')
    for cons, name in TYPE_NAMES.items():
        if cons in ('Arr', 'Obj') and v.level == 0:
            continue
        t = z3.If(v.is_(cons), z3.StringVal(name), t)
    return t


POOL = [None, True, False, 0, 1, -3, 2.5, 1.0, -0.0, 10 ** 20, '', 'a', 'b', 'ab', 'B', datetime.datetime(2024, 1, 2), datetime.datetime(2023, 5, 6, 7),
        len, [], [1], [1, 2], ['a', None], [None], [True, 1], {}, {'a': 1}, {'a': True}, {'a': 1, 'b': 2}, {'b': 0}, {'a': None}]


def validate_translation(levels=1):
    """the symbolic encoding must agree with the real value_compare on concrete values"""
    import z3
    import re
    S, V, u, real = _setup(levels)
    pool = list(POOL) + [re.compile('a')]
    bad, specbad = [], []
    n = 0
    for x in pool:
        for y in pool:
            try:
                tx, ty = u.from_python(x), u.from_python(y)
            except S.Unsupported:
                continue
            term, _ = real(tx, ty)
            want = V.value_compare(x, y)
            sol = z3.Solver()
            g_, s_ = z3.Int('got'), z3.Int('spec')
            sol.add(g_ == term, s_ == spec_cmp(S, u, tx, ty))
            if str(sol.check()) != 'sat':
                bad.append((repr(x), repr(y), 'no model', None, want))
                continue
            got, sp = sol.model()[g_].as_long(), sol.model()[s_].as_long()
            n += 1
            if got != want:
                bad.append((repr(x), repr(y), got, sp, want))
            elif sp != want:
                specbad.append((x, y))
    return n, bad, specbad


PY_POOL = POOL + [float('inf'), float('-inf'), [2], [1, 1], [1, 2, 3], [[1], 2], [[2]], {'a': [1]}, {'a': {'b': 1}}, datetime.date(2024, 1, 2), 1e308, -1e308,
                  5e-324, 2 ** 53 + 1, float(2 ** 53), 'a\x00', '\U0001F600', [True], [1.0], {'b': 1, 'a': 2}, {'a': 2, 'b': 1}]


def pool_spec_task():
    """the real value_compare against the written specification and the order laws on a concrete pool (also what still runs when the
    symbolic translation is skipped because the code left the translator's subset)"""
    from bare_script.value import value_compare
    import re
    pool = list(PY_POOL) + [re.compile('a')]
    n = 0
    for x in pool:
        for y in pool:
            n += 1
            for law, vals in (('spec_equivalence', [x, y]), ('antisymmetric', [x, y]), ('reflexive', [x])):
                try:
                    ok, info = replay_law(law, vals)
                except Exception as exc:  # pylint: disable=broad-exception-caught
                    ok, info = False, {'law': law, 'exception': f'{type(exc).__name__}: {exc}'}
                if not ok:
                    try:
                        plain = [_plain(v) for v in vals]
                    except (TypeError, ValueError):
                        plain = None
                    info['values'] = repr(vals)[:300]
                    rp = {'module': 'vf.props.c11', 'fn': 'replay_law', 'kwargs': {'law': law, 'values': plain}} if plain is not None else \
                        {'module': 'vf.props.c11', 'fn': 'replay_pool_pair', 'kwargs': {'i': pool.index(x), 'j': pool.index(y), 'law': law}}
                    return {'state': 'violation', 'detail': info, 'replay': rp}
    return {'state': 'ok', 'checked': n}


def replay_pool_pair(i, j, law):
    import re
    pool = list(PY_POOL) + [re.compile('a')]
    return replay_law(law, [pool[i], pool[j]] if law != 'reflexive' else [pool[i]])


def validation_task():
    from .. import symex as S
    try:
        n, bad, specbad = validate_translation(1)
    except S.Unsupported as exc:
        return {'state': 'skipped', 'why': f'value_compare left the translator subset ({exc}); the pool check and the consumers still run'}
    return _validation_result(n, bad, specbad)


def _validation_result(n, bad, specbad):
    if bad:
        return {'state': 'error', 'error': f'translator validation mismatch (x, y, encoding, spec, real): {bad[:3]}'}
    for x, y in specbad:
        # the encoding agrees with the real function but the real function disagrees with the documented order on a pool pair
        try:
            values = [_plain(x), _plain(y)]
        except TypeError:
            continue
        ok, info = replay_law('spec_equivalence', values)
        if not ok:
            return {'state': 'violation', 'detail': info, 'replay': {'module': 'vf.props.c11', 'fn': 'replay_law',
                                                                     'kwargs': {'law': 'spec_equivalence', 'values': values}}}
    return {'state': 'ok', 'checked': n}


def _plain(x):
    import json
    json.dumps(x)
    return x


LAWS = ['reflexive', 'antisymmetric', 'range', 'transitive', 'null_least', 'spec_equivalence', 'int_float_spelling', 'bool_not_number', 'no_host_error']


def _to_python(S, u, model, v):
    """ADT model value -> Python value (for replay)"""
    import z3
    t = model.eval(v.term, model_completion=True)
    return _term_to_python(S, u, v.level, t)


def _term_to_python(S, u, level, t):
    import z3
    from .. import rx2z3 as R
    s = u.sorts[level]
    name = t.decl().name()
    if name == 'Null':
        return None
    if name == 'Bool':
        return z3.is_true(t.arg(0))
    if name == 'Int':
        return t.arg(0).as_long()
    if name == 'Float':
        a = t.arg(0)
        return float(a.numerator_as_long()) / float(a.denominator_as_long())
    if name == 'Str':
        return R.py_str(t.arg(0).as_string())
    if name == 'Dt':
        return {'__dt__': t.arg(0).as_long()}
    if name == 'Fn':
        return {'__fn__': t.arg(0).as_long()}
    if name == 'Rx':
        return {'__rx__': t.arg(0).as_long()}
    if name == 'Unk':
        return {'__unk__': t.arg(0).as_long()}
    if name == 'Arr':
        n = t.arg(0).as_long()
        return [_term_to_python(S, u, level - 1, t.arg(1 + k)) for k in range(n)]
    if name == 'Obj':
        n = t.arg(0).as_long()
        return {'__obj__': [[R.py_str(t.arg(1 + 2 * k).as_string()), _term_to_python(S, u, level - 1, t.arg(2 + 2 * k))] for k in range(n)]}
    raise ValueError(name)


def _revive(x):
    import re
    if isinstance(x, dict):
        if '__dt__' in x:
            return datetime.datetime(2000, 1, 1) + datetime.timedelta(microseconds=x['__dt__'])
        if '__fn__' in x:
            return [len, abs, max][x['__fn__'] % 3]
        if '__rx__' in x:
            return re.compile('a' * (x['__rx__'] % 3))
        if '__unk__' in x:
            return object()
        if '__obj__' in x:
            return dict((k, _revive(v)) for k, v in x['__obj__'])
    if isinstance(x, list):
        return [_revive(v) for v in x]
    return x


def replay_law(law, values):
    """re-evaluate a law on concrete values with the REAL value_compare"""
    from bare_script.value import value_compare
    vals = [_revive(v) for v in values]
    info = {'law': law, 'values': repr(vals)[:400]}
    try:
        if law == 'reflexive':
            ok = value_compare(vals[0], vals[0]) == 0
        elif law == 'antisymmetric':
            ok = value_compare(vals[0], vals[1]) == -value_compare(vals[1], vals[0])
        elif law == 'range':
            ok = value_compare(vals[0], vals[1]) in (-1, 0, 1)
        elif law == 'transitive':
            a, b, c = vals
            ok = not (value_compare(a, b) <= 0 and value_compare(b, c) <= 0) or value_compare(a, c) <= 0
        elif law == 'null_least':
            ok = value_compare(None, vals[0]) == (0 if vals[0] is None else -1)
        elif law == 'int_float_spelling':
            a, b = vals
            ok = value_compare(a, b) == value_compare(float(a), b) and value_compare(b, a) == value_compare(b, float(a))
        elif law == 'bool_not_number':
            ok = value_compare(vals[0], vals[1]) != 0
        elif law == 'spec_equivalence':
            ok = value_compare(vals[0], vals[1]) == py_spec(vals[0], vals[1]) and value_compare(vals[0], vals[1]) in (-1, 0, 1)
            info['real'] = value_compare(vals[0], vals[1])
            info['spec'] = py_spec(vals[0], vals[1])
        else:
            ok = True
    except Exception as exc:  # pylint: disable=broad-exception-caught
        ok = False
        info['exception'] = f'{type(exc).__name__}: {exc}'
    return ok, info


def py_spec(a, b):
    """the documented order on concrete Python values (replay side of spec_equivalence)"""
    from bare_script.value import value_type
    sign = lambda x, y: -1 if x < y else (0 if x == y else 1)
    if a is None or b is None:
        return 0 if (a is None and b is None) else (-1 if a is None else 1)
    isnum = lambda v: isinstance(v, (int, float)) and not isinstance(v, bool)
    if isinstance(a, str) and isinstance(b, str):
        return sign(a, b)
    if isinstance(a, bool) and isinstance(b, bool):
        return sign(a, b)
    if isnum(a) and isnum(b):
        return sign(a, b)
    if isinstance(a, datetime.date) and isinstance(b, datetime.date):
        mid = lambda d: d if isinstance(d, datetime.datetime) else datetime.datetime(d.year, d.month, d.day)     # a date is its midnight
        return sign(mid(a), mid(b))
    if isinstance(a, list) and isinstance(b, list):
        for x, y in zip(a, b):
            c = py_spec(x, y)
            if c:
                return c
        return sign(len(a), len(b))
    if isinstance(a, dict) and isinstance(b, dict):
        for (k1, v1), (k2, v2) in zip(sorted(a.items(), key=lambda kv: kv[0]), sorted(b.items(), key=lambda kv: kv[0])):
            c = sign(k1, k2) or py_spec(v1, v2)
            if c:
                return c
        return sign(len(a), len(b))
    return sign(value_type(a) or 'unknown', value_type(b) or 'unknown')


def lemma(law, levels=1):
    import z3
    S, V, u, real = _setup(levels)
    a, b, c = u.var('a'), u.var('b'), u.var('c')
    wf = [u.wellformed(a), u.wellformed(b), u.wellformed(c)]
    sol = z3.Solver()
    sol.set('timeout', 300000)
    sol.add(*wf)
    used = [a, b]
    ab, eab = real(a, b)
    if law == 'reflexive':
        aa, _ = real(a, a)
        sol.add(aa != 0)
        used = [a]
    elif law == 'antisymmetric':
        ba, _ = real(b, a)
        sol.add(ab != -ba)
    elif law == 'range':
        sol.add(z3.Not(z3.Or(ab == -1, ab == 0, ab == 1)))
    elif law == 'transitive':
        bc, _ = real(b, c)
        ac, _ = real(a, c)
        sol.add(ab <= 0, bc <= 0, ac > 0)
        used = [a, b, c]
    elif law == 'null_least':
        s = u.sorts[u.top]
        na, _ = real(S.Val(u, u.top, s.Null), a)
        sol.add(na != z3.If(a.is_('Null'), 0, -1))
        used = [a]
    elif law == 'spec_equivalence':
        sol.add(ab != spec_cmp(S, u, a, b))
    elif law == 'int_float_spelling':
        s = u.sorts[u.top]
        i = z3.Int('i')
        ai, af = S.Val(u, u.top, s.Int(i)), S.Val(u, u.top, s.Float(z3.ToReal(i)))
        r1, _ = real(ai, b)
        r2, _ = real(af, b)
        r3, _ = real(b, ai)
        r4, _ = real(b, af)
        sol.add(z3.Or(r1 != r2, r3 != r4))
        used = [ai, b]
    elif law == 'bool_not_number':
        sol.add(a.is_('Bool'), z3.Or(b.is_('Int'), b.is_('Float')), ab == 0)
    elif law == 'no_host_error':
        sol.add(z3.Or(*eab) if eab else z3.BoolVal(False))
    r = str(sol.check())
    if r == 'unsat':
        return {'state': 'unsat', 'lemma': f'{law} (levels={levels}, containers <= 2 elements, unbounded ints/reals/strings)', }
    if r != 'sat':
        return {'state': 'inconclusive', 'why': f'{law}: solver {r}'}
    m = sol.model()
    values = [_to_python(S, u, m, v) for v in used]
    ok, info = replay_law(law, values)
    if ok:
        return {'state': 'inconclusive', 'why': f'{law}: model {values!r} does not reproduce on the real function (model/encoding artefact)'}
    return {'state': 'violation', 'detail': info, 'replay': {'module': 'vf.props.c11', 'fn': 'replay_law', 'kwargs': {'law': law, 'values': values}}}


# ---------------------------------------------------------------------------------------------------------------------
# E1 consumers

CORE = '''
import datetime, re
from bare_script import parse_expression, evaluate_expression, parse_script, execute_script
from bare_script.library import SCRIPT_FUNCTIONS
from bare_script.value import value_compare

FLOATS = [0.5, -0.0, 1e15, 2.0 ** 53, -2.5, 3.0]
OTHERS = [datetime.datetime(2024, 1, 2), datetime.date(2024, 1, 2), datetime.datetime(2023, 1, 1), [], [1], [1, 2], ['a'], {{}}, {{'a': 1}}, len,
          re.compile('a'), [None], {{'a': None}}]
KA, KB = {ka!r}, {kb!r}
OPS = ['==', '!=', '<', '<=', '>', '>=']
EXPRS = dict((op, parse_expression('aa ' + op + ' bb')) for op in OPS)
CMP = parse_expression('systemCompare(aa, bb)')


def _pick(pool, i):
    for j in range(len(pool)):
        if i == j:
            return pool[j]
    return pool[0]


def _val(kind, x):
    if kind == 'float':
        return _pick(FLOATS, x)
    if kind == 'other':
        return _pick(OTHERS, x)
    if kind == 'null':
        return None
    return x


def core_rel(a, b):
    va, vb = _val(KA, a), _val(KB, b)
    g = {{'aa': va, 'bb': vb, 'systemCompare': SCRIPT_FUNCTIONS['systemCompare']}}
    c = evaluate_expression(CMP, {{'globals': g}}, None, False)
    want = {{'==': c == 0, '!=': c != 0, '<': c < 0, '<=': c <= 0, '>': c > 0, '>=': c >= 0}}
    if c not in (-1, 0, 1) or c != value_compare(va, vb):
        return False, {{'clause': 'systemCompare is not the value comparison', 'aa': repr(va), 'bb': repr(vb), 'systemCompare': c}}
    for op in OPS:
        r = evaluate_expression(EXPRS[op], {{'globals': g}}, None, False)
        if r is not want[op]:
            return False, {{'clause': 'relational operator is not the sign test of systemCompare', 'op': op, 'aa': repr(va), 'bb': repr(vb),
                           'systemCompare': c, 'result': repr(r)}}
    return True, {{}}


def _leq(x, y):
    return value_compare(x, y) <= 0


def core_sort(a, b, c, n, ka, kb):
    xs = [None if ka else a, True if kb else b, c][:3]
    arr = xs if n == 3 else (xs[:2] if n == 2 else (xs[:1] if n == 1 else []))
    src = list(arr)
    out = SCRIPT_FUNCTIONS['arraySort']([arr], None)
    if out is not arr or len(out) != len(src):
        return False, {{'clause': 'arraySort must sort in place and keep the length', 'input': repr(src), 'output': repr(out)}}
    for k in range(len(out) - 1):
        if not _leq(out[k], out[k + 1]):
            return False, {{'clause': 'arraySort result is not ordered', 'input': repr(src), 'output': repr(out)}}
    rest = list(src)
    for v in out:
        hit = -1
        for k in range(len(rest)):
            if rest[k] is v or (type(rest[k]) is type(v) and rest[k] == v):
                hit = k
                break
        if hit < 0:
            return False, {{'clause': 'arraySort result is not a permutation', 'input': repr(src), 'output': repr(out)}}
        del rest[hit]
    return True, {{}}


def core_minmax(a, b, c, n, ka, kb):
    xs = [None if ka else a, b, 0.5 if kb else c]
    args = xs if n == 3 else (xs[:2] if n == 2 else xs[:1])
    lo = SCRIPT_FUNCTIONS['mathMin'](list(args), None)
    hi = SCRIPT_FUNCTIONS['mathMax'](list(args), None)
    def among(v):
        return any((v is x) or (type(v) is type(x) and v == x) for x in args)
    if not among(lo) or not all(_leq(lo, x) for x in args):
        return False, {{'clause': 'mathMin must return a least argument', 'args': repr(args), 'result': repr(lo)}}
    if not among(hi) or not all(_leq(x, hi) for x in args):
        return False, {{'clause': 'mathMax must return a greatest argument', 'args': repr(args), 'result': repr(hi)}}
    return True, {{}}
'''
KINDS = ['int', 'bool', 'str', 'null', 'float', 'other']
PT = {'int': 'int', 'bool': 'bool', 'str': 'str', 'null': 'int', 'float': 'int', 'other': 'int'}


def _pre(kind, name):
    return {'str': [f'len({name}) <= 2'], 'null': [f'{name} == 0'], 'float': [f'0 <= {name} < 6'], 'other': [f'0 <= {name} < 13']}.get(kind, [])


def plan(tier, seed, workdir):
    import bare_script.value as V
    import bare_script.library as L
    import bare_script.runtime as rt
    p = Plan('C11', 'exploration')
    p.encode(V.value_compare, V.value_type, V.value_normalize_datetime, rt.evaluate_expression, L._array_sort, L._math_min, L._math_max)
    p.add({'kind': 'native', 'id': 'pool_spec', 'module': 'vf.props.c11', 'fn': 'pool_spec_task', 'kwargs': {}, 'timeout': 600, 'est': 20},
          family='real value_compare vs specification and laws on a concrete pool incl. infinities (native by-product)')
    p.add({'kind': 'native', 'id': 'translator_validation', 'module': 'vf.props.c11', 'fn': 'validation_task', 'kwargs': {}, 'timeout': 900, 'est': 80},
          family='translator validation: symbolic encoding and spec vs the real value_compare on 961 concrete pairs')
    for law in LAWS:
        p.add({'kind': 'lemma', 'id': f'law_{law}_L1', 'module': 'vf.props.c11', 'fn': 'lemma', 'kwargs': {'law': law, 'levels': 1},
               'timeout': 600, 'est': 30}, family='E2 order law', law=law, levels=1)
    if tier == 'thorough':
        for law in LAWS:
            p.add({'kind': 'lemma', 'id': f'law_{law}_L2', 'module': 'vf.props.c11', 'fn': 'lemma', 'kwargs': {'law': law, 'levels': 2},
                   'timeout': 3000, 'est': 600}, family='E2 order law', law=law, levels=2)
    timeout = 60 if tier == 'quick' else 300
    for ka in KINDS:
        for kb in KINDS:
            body = CORE.format(ka=ka, kb=kb)
            body += hgen.harness('rel', f'a: {PT[ka]}, b: {PT[kb]}', _pre(ka, 'a') + _pre(kb, 'b'), core_call='core_rel(a, b)')
            path = hgen.write_module(workdir, f'c11_rel_{ka}_{kb}', body)
            hgen.ch_tasks(p, path, 'rel', timeout, family='E1 relational operators = sign tests', kinds=[ka, kb])
    body = CORE.format(ka='int', kb='int')
    body += hgen.harness('sort', 'a: int, b: int, c: int, n: int, ka: bool, kb: bool', ['0 <= n <= 3'], core_call='core_sort(a, b, c, n, ka, kb)')
    body += hgen.harness('minmax', 'a: int, b: int, c: int, n: int, ka: bool, kb: bool', ['1 <= n <= 3'], core_call='core_minmax(a, b, c, n, ka, kb)')
    path = hgen.write_module(workdir, 'c11_consumers', body)
    hgen.ch_tasks(p, path, 'sort', timeout * 2, family='E1 arraySort ordered permutation')
    hgen.ch_tasks(p, path, 'minmax', timeout * 2, family='E1 mathMin/mathMax least/greatest')
    p.rule = ('one z3 query per order law over the datatype of values (real AST of value_compare executed symbolically); one CrossHair '
              'condition per operand-kind pair for the relational operators and one each for arraySort and mathMin/mathMax')
    p.bounds = ['containers <= 2 elements / keys, nesting level 1 (quick) and 2 (thorough); ints, reals and strings unbounded; NaN excluded',
                'datetimes as integer instants after value_normalize_datetime (stubbed: the documented key map)',
                'E1: strings len <= 2, ints unbounded, floats/datetimes/containers from pools chosen by symbolic indices']
    p.stubs = ['value_normalize_datetime in the E2 encoding', 'ValueArgsError message formatting in E1']
    p.outside = ['depth-3 nesting, containers with more than 2 elements', 'NaN', 'date vs aware datetime normalisation (C boundary: astimezone)',
                 'dataSort and arrayIndexOf consumers (checked under C19 / C15)']
    p.assumptions = ['z3', 'vf.symex models of Python isinstance/</==/len/min/range/sorted(items) on the value datatype (validated each run '
                     'on the concrete pool against the real function)', 'CrossHair for E1']
    p.samples = [{'law': 'transitive', 'query': 'exists a,b,c well-formed: cmp(a,b)<=0 and cmp(b,c)<=0 and cmp(a,c)>0  -> unsat'},
                 {'kinds': ['int', 'float'], 'check': 'six operators are the sign tests of systemCompare'}]
    return p
