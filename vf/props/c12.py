"""
C12 one number type: int and float spellings of an integral number are interchangeable.

Per (library function, numeric parameter) one CrossHair condition: the parameter is a symbolic int n in the function's
interesting range; the call is made twice through the real call wrapper - all numbers (also inside arrays/objects)
spelled as ints, and as floats (float table indexed by the symbolic n) - and result, failure behaviour and post-call
argument state must agree.  A second family does the same for numbers flowing as plain values through operators,
stringification and value-taking functions.
"""
from ..engine import Plan
from .. import hgen
from ..hlib import libinfo

N = '<n>'      # the symbolic numeric parameter
ARR = [10, 20, 'x', 20]
ROWS = [{'c': 1, 'v': 5}, {'c': 2, 'v': 6}, {'c': 1, 'v': 7}]
# default arguments; each number position is tried as the symbolic one in turn, the others keep these values
DEFAULTS = {
    'arrayDelete': [ARR, 1], 'arrayGet': [ARR, 1], 'arrayIndexOf': [ARR, 20, 1], 'arrayLastIndexOf': [ARR, 20, 3],
    'arrayNewSize': [2, 'v'], 'arraySet': [ARR, 1, 'w'], 'arraySlice': [ARR, 1, 3], 'dataTop': [ROWS, 1, ['c']],
    'datetimeNew': [2024, 2, 28, 23, 59, 59, 999], 'jsonStringify': [{'a': [1, -7, {'b': 2}], 'n': -3}, 2],
    'mathAbs': [1], 'mathAcos': [1], 'mathAsin': [1], 'mathAtan': [1], 'mathAtan2': [1, 2], 'mathCeil': [1], 'mathCos': [1],
    'mathFloor': [1], 'mathLn': [2], 'mathLog': [8, 2], 'mathRound': [3, 1], 'mathSign': [1], 'mathSin': [1], 'mathSqrt': [4],
    'mathTan': [1], 'numberParseInt': ['101', 10], 'numberToFixed': [3, 2, False], 'stringCharCodeAt': ['hello', 1],
    'stringIndexOf': ['hello hello', 'l', 1], 'stringLastIndexOf': ['hello hello', 'l', 8], 'stringRepeat': ['ab', 2],
    'stringSlice': ['hello', 1, 3],
}
RANGES = {
    ('datetimeNew', 0): (1998, 2006), ('datetimeNew', 1): (-14, 26), ('datetimeNew', 2): (-3, 34), ('datetimeNew', 3): (-26, 50),
    ('datetimeNew', 4): (-3, 63), ('datetimeNew', 5): (-63, 3), ('datetimeNew', 6): (-3, 3),
    ('numberParseInt', 1): (0, 38), ('dataTop', 1): (-1, 4), ('jsonStringify', 1): (-1, 9),
}
EXTRA = [   # additional argument layouts (function, args, symbolic position)
    ('dataTop', [ROWS, 2, None], 1), ('arrayLastIndexOf', [ARR, 20, None], None), ('datetimeNew', [2024, 12, 31, 24, 0, 0, 0], 2),
    ('datetimeNew', [2024, 2, 28, 49, 30, 0, 0], 2), ('datetimeNew', [2023, 2, 28, 0, 0, 0, 86400000], 2),
    ('arraySlice', [ARR, 0, None], 1), ('stringSlice', ['hello', 1, None], 1),
]

CORE = '''
import copy
from bare_script import evaluate_expression, parse_script, execute_script
from bare_script.runtime import BareScriptRuntimeError
from bare_script.library import SCRIPT_FUNCTIONS

NAME = {name!r}
ARGS = {args!r}
POS = {pos!r}
LO, HI = {lo}, {hi}


def _conv(v, sp, n):
    if isinstance(v, bool) or v is None or isinstance(v, str):
        return v
    if isinstance(v, int):
        return v if sp == 'int' else float(v)
    if isinstance(v, list):
        return [_conv(x, sp, n) for x in v]
    if isinstance(v, dict):
        return dict((k, _conv(x, sp, n)) for k, x in v.items())
    return v


def _call(sp, n, nf):
    args = []
    for k, a in enumerate(ARGS):
        if k == POS:
            args.append(n if sp == 'int' else nf)
        else:
            args.append(_conv(a, sp, n))
    expr = {{'function': {{'name': NAME, 'args': [{{'variable': 'a' + str(k)}} for k in range(len(args))]}}}}
    g = dict(('a' + str(k), v) for k, v in enumerate(args))
    g[NAME] = SCRIPT_FUNCTIONS[NAME]
    log = []
    try:
        r = ('ok', evaluate_expression(expr, {{'globals': g, 'debug': True, 'logFn': log.append}}, None, False))
    except BareScriptRuntimeError as exc:
        r = ('err', str(exc))
    return r, args, len(log)


def core_spell(n):
    ni = nf = None
    for j in range(LO, HI + 1):
        if n == j:               # case split decided by the solver; both spellings are concrete afterwards
            ni, nf = j, float(j)
    ri = _call('int', ni, nf)
    rf = _call('float', ni, nf)
    if ri != rf:
        return False, {{'function': NAME, 'n': n, 'position': POS, 'args': repr(ARGS)[:200], 'int_spelling': repr(ri)[:300],
                       'float_spelling': repr(rf)[:300]}}
    return True, {{}}
'''

VALUE_EXPRS = [
    "jsonStringify(arrayNew(3, nn, 12))", "jsonStringify(objectNew('k', nn, 'j', arrayNew(nn)))", "jsonStringify(nn)", "stringNew(nn)",
    "arrayJoin(arrayNew(nn, 2), ',')", "'x' + nn", "nn + 'x'", "nn + 1", "nn * 2", "nn / 2", "nn % 3", "nn ** 2", "2 ** nn", "-nn",
    "nn == 2", "nn != 2", "nn < 2", "nn >= 2", "mathMax(nn, 1)", "mathMin(nn, 1)", "systemCompare(nn, 1)", "systemIs(nn, 2)",
    "systemType(nn)", "systemBoolean(nn)", "arrayIndexOf(arrayNew(1, 2, 3), nn)", "objectGet(objectNew('a', 1), 'b', nn)",
    "datetimeNew(2024, 1, 1) + nn", "numberToFixed(nn, 2)", "if(nn, 1, 2)", "stringFromCharCode(97 + nn)", "arrayNew(nn)",
    "stringNew(arrayNew(nn, objectNew('a', nn)))", "arrayPush(arrayNew(1), nn)", "objectSet(objectNew(), 'a', nn)",
    "arraySort(arrayNew(3, nn, 1))", "numberParseFloat(stringNew(nn))", "mathRound(nn / 3, 2)", "dataSort(arrayNew(objectNew('a', 2), objectNew('a', nn)), arrayNew(arrayNew('a')))",
    "dataAggregate(arrayNew(objectNew('a', nn), objectNew('a', 2)), objectNew('measures', arrayNew(objectNew('field', 'a', 'function', 'sum'))))",
    # both operands are host numbers (no float literal involved): kk is 3, mk is -7, in the same spelling as nn
    "nn % kk", "mk % kk", "mk % nn", "nn / kk", "nn ** kk", "nn - mk", "nn * mk", "mk + nn", "nn < kk", "mathFloor(mk / kk)", "arrayNew(nn, kk, mk)",
    "stringNew(mk % kk)", "systemCompare(mk % kk, nn)",
]

CORE_VAL = '''
from bare_script import parse_script, execute_script
from bare_script.runtime import BareScriptRuntimeError

EXPR = {expr!r}
MODEL = parse_script('return ' + EXPR)
LO, HI = -3, 11
BIG = [10 ** 12 + 123, 123456789012345, 2 ** 47 + 1, -(10 ** 14) + 1, 999999999999999]      # integral, |n| < 1e15 (the property's range)


def _run(v):
    log = []
    try:
        kk, mk = (3.0, -7.0) if isinstance(v, float) else (3, -7)
        return ('ok', execute_script(MODEL, {{'globals': {{'nn': v, 'kk': kk, 'mk': mk}}, 'debug': True, 'logFn': log.append}})), len(log)
    except BareScriptRuntimeError as exc:
        return ('err', str(exc)), len(log)


def core_val(n):
    ni = nf = None
    for j in range(LO, HI + 1):
        if n == j:
            v = j if j <= 6 else BIG[j - 7]
            ni, nf = v, float(v)
    ri = _run(ni)
    rf = _run(nf)
    a, b = ri[0][1], rf[0][1]
    if ri != rf and ri[0][0] == rf[0][0] == 'ok' and ri[1] == rf[1] and isinstance(a, (int, float)) and isinstance(b, (int, float)) \
            and not isinstance(a, bool) and not isinstance(b, bool) and abs(a) >= 1e15 and abs(a - b) <= abs(a) * 1e-12:
        return True, {{}}          # a RESULT beyond 1e15: exact integer vs rounded double is outside the property's range
    if ri != rf:
        return False, {{'expr': EXPR, 'n': n, 'int_spelling': repr(ri)[:300], 'float_spelling': repr(rf)[:300]}}
    return True, {{}}
'''


CORE_GEN = '''
import datetime, re
from bare_script import evaluate_expression
from bare_script.runtime import BareScriptRuntimeError
from bare_script.library import SCRIPT_FUNCTIONS

NAME = {name!r}
SPEC = {spec!r}
CONC = {{'num': 1, 'str': 'a1', 'arr': [3, 1, 2, 'x'], 'obj': {{'a': 1, 'b': [2, 3]}}, 'dt': datetime.datetime(2024, 1, 2, 3, 4, 5, 6000), 'rx': re.compile('a'),
        'fn': None, 'true': True}}


def _spell(v, sp):
    if isinstance(v, bool) or v is None or isinstance(v, str):
        return v
    if isinstance(v, int):
        return v if sp == 'int' else float(v)
    if isinstance(v, list):
        return [_spell(x, sp) for x in v]
    if isinstance(v, dict):
        return dict((k, _spell(x, sp)) for k, x in v.items())
    return v


def _call(sp, i, i2):
    def fn(args, options):
        return _spell(2, sp)
    args = []
    for a in SPEC:
        if a[0] == 'c':
            args.append(fn if a[1] == 'fn' else _spell(CONC[a[1]], sp))
        elif a[0] == 'i':
            args.append(_spell(i, sp))
        elif a[0] == 'i2':
            args.append(_spell(i2, sp))
        elif a[0] == 's':
            args.append('a1')
        elif a[0] == 'b':
            args.append(True)
        elif a[0] == 'arr_i':
            args.append(_spell([i, 'x', i2], sp))
        elif a[0] == 'obj_i':
            args.append(_spell({{'a': i, 'b': 'x'}}, sp))
    expr = {{'function': {{'name': NAME, 'args': [{{'variable': 'a' + str(k)}} for k in range(len(args))]}}}}
    g = dict(('a' + str(k), v) for k, v in enumerate(args))
    g[NAME] = SCRIPT_FUNCTIONS[NAME]
    log = []
    try:
        r = ('ok', evaluate_expression(expr, {{'globals': g, 'debug': True, 'logFn': log.append, 'statementCount': 0}}, None, False))
    except BareScriptRuntimeError as exc:
        r = ('err', str(exc))
    return r, [a for a in args if not callable(a)], len(log)


def core_gen(n, n2):
    i = i2 = 0
    for j in range(-2, 6):
        if n == j:
            i = j
        if n2 == j:
            i2 = j
    ri, rf = _call('int', i, i2), _call('float', i, i2)
    if repr(ri[0][1]).startswith('<') and repr(rf[0][1]).startswith('<'):
        ri, rf = (ri[0][0], ri[1], ri[2]), (rf[0][0], rf[1], rf[2])          # functions/regex objects: compare the rest
    if ri != rf:
        return False, {{'function': NAME, 'i': i, 'i2': i2, 'int_spelling': repr(ri)[:300], 'float_spelling': repr(rf)[:300]}}
    return True, {{}}
'''


def plan(tier, seed, workdir):
    import bare_script.value as val
    p = Plan('C12', 'exploration')
    p.encode(val.value_args_validate)
    info = libinfo.functions()
    timeout = 150 if tier == 'quick' else 400
    layouts = []
    for name, args in DEFAULTS.items():
        model = info[name]['model']
        for k, a in enumerate(model):
            if a.get('type') == 'number' and k < len(args):
                layouts.append((name, args, k))
    layouts += [(n, a, k) for n, a, k in EXTRA if k is not None]
    seen = set()
    for name, args, k in layouts:
        p.encode(info[name]['fn'])
        lo, hi = RANGES.get((name, k), (-2, 8))
        tag = f'{name}_{k}'
        while tag in seen:
            tag += 'x'
        seen.add(tag)
        body = CORE.format(name=name, args=args, pos=k, lo=lo, hi=hi)
        body += hgen.harness('spell', 'n: int', [f'{lo} <= n <= {hi}'], core_call='core_spell(n)')
        path = hgen.write_module(workdir, f'c12_fn_{tag}', body)
        hgen.ch_tasks(p, path, 'spell', timeout, family='library numeric parameter', function=name, position=k, range=[lo, hi],
                      enum={'n': list(range(lo, hi + 1))})
    for i, expr in enumerate(VALUE_EXPRS):
        body = CORE_VAL.format(expr=expr)
        body += hgen.harness('val', 'n: int', ['-3 <= n <= 11'], core_call='core_val(n)')
        path = hgen.write_module(workdir, f'c12_val_{i:02d}', body)
        hgen.ch_tasks(p, path, 'val', timeout, family='number as a value', expr=expr, enum={'n': list(range(-3, 12))})
    from . import c05
    ngen = 0
    for name, fi in sorted(info.items()):
        if not fi['has_model'] or name in DEFAULTS or name in libinfo.EXCLUDE or name.startswith('schema') or name in ('systemFetch', 'dataParseCSV'):
            continue
        spec = c05.valid_for(fi['model'])
        body = CORE_GEN.format(name=name, spec=spec)
        body += hgen.harness('gen', 'n: int, n2: int', ['-2 <= n <= 5', '-2 <= n2 <= 5'], core_call='core_gen(n, n2)')
        path = hgen.write_module(workdir, f'c12_gen_{name}', body)
        hgen.ch_tasks(p, path, 'gen', timeout, est=15, family='every other library function, valid-kind arguments in both spellings', function=name,
                      enum={'n': list(range(-2, 6)), 'n2': list(range(-2, 6))})
        ngen += 1
    p.extra_coverage['generic_functions'] = ngen
    p.rule = ('one CrossHair condition per (library function, numeric parameter) and per value expression; symbolic integral n, both '
              'spellings compared (result, failure behaviour, post-call arguments, debug log count)')
    p.bounds = ['n in -2..8 by default (value expressions: -3..6 plus five integral values between 1e12 and 1e15); datetimeNew components and radix in wider per-parameter ranges (see samples)',
                'other arguments: fixed representative containers/strings, converted recursively to the same spelling',
                f'{len(layouts)} parameter layouts over {len(DEFAULTS)} functions with numeric parameters; {len(VALUE_EXPRS)} value expressions']
    p.stubs = ['ValueArgsError message formatting']
    p.outside = ['|n| >= 1e15 (by the property)', 'clock/random/fetch functions', 'non-integral numbers', 'argument layouts other than the listed ones']
    p.assumptions = ['CrossHair/z3', 'float spelling taken from a concrete table indexed by the symbolic n (symbolic floats never confirm)']
    p.samples = [{'function': n, 'args': a, 'symbolic_position': k, 'range': RANGES.get((n, k), (-2, 8))} for n, a, k in layouts[:4]]
    return p
