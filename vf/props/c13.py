"""
C13 numbers survive conversion to text and back; integral values print without a fraction.

E2 (z3 regular-language lemmas over the grammar of CPython's repr(float), validated each run against real reprs):
  (i)  the live clean-up regex fires on a repr text exactly when it is `intpart.0+` (then only the fraction is dropped);
  (ii) every cleaned non-negative text lies in the language of the live numeric-literal regex.
E1: value_string(i) == str(i) for symbolic ints; solver-indexed float corner pool round trip through the real
stringification, numberParseFloat and the expression parser; solver-chosen mantissa/exponent texts and near-miss texts
for the parsers (null instead of non-finite/partial values).
Not applicable: float(repr(x)) == x for every double is CPython's dtoa/strtod (C code) - an assumption here.
"""
import ast
import inspect
import math
import random
import re
import struct
import textwrap

from ..engine import Plan
from .. import hgen


def repr_grammar():
    import z3
    from .. import rx2z3 as R
    digit = R.re_range(0x30, 0x39)
    sign = z3.Option(R.re_char(ord('-')))
    intpart = z3.Concat(sign, z3.Plus(digit))
    fixed = z3.Concat(intpart, R.re_char(ord('.')), z3.Plus(digit))
    expo = z3.Concat(sign, digit, z3.Option(z3.Concat(R.re_char(ord('.')), z3.Plus(digit))), R.re_char(ord('e')),
                     R.union([R.re_char(ord('+')), R.re_char(ord('-'))]), digit, z3.Plus(digit))
    return {'G': R.union([fixed, expo]), 'intpart': intpart, 'digit': digit,
            'intzeros': z3.Concat(intpart, R.re_char(ord('.')), z3.Plus(R.re_char(0x30)))}


def corner_floats():
    out = [0.0, -0.0, 1.0, -1.0, 0.1, 0.5, 1.5, 100.0, 1e15, 1e16, 1e21, 1e22, 123456789012345678.0, 2.0 ** 53, 2.0 ** 53 + 2, 2.0 ** 53 - 1,
           5e-324, 2.2250738585072014e-308, 1.7976931348623157e308, 1e-7, 1e-5, 0.0001, 0.00001, 1e+20, 2.5e-10, 1e+100, 3e+300, 120.0,
           1e-320, 999999999999999.0, 9999999999999998.0, 0.30000000000000004, 1 / 3,
           # a few ulps away from an integer
           3.0000000000000004, 0.9999999999999999, 123456.00000000001, 2.0000000000000004, 99999999999999.98, 1.0000000000000002,
           4503599627370497.5, 1e15 - 0.125, 7.000000000000001, 1e-15 + 1, 0.1 * 3 * 10, 1e22 + 2 ** 22, 4.35 * 100, 1.1 * 1.1]
    for e in range(-320, 309, 7):
        out.append(float(f'1e{e}'))
    rng = random.Random(13)
    for e in range(-12, 21):
        for _ in range(4):           # full-precision doubles in every decimal band from 1e-12 to 1e20
            out.append(rng.uniform(1, 10) * 10.0 ** e)
    out += [1 / 30000, 2 / 300000, 1 / 7e5, 1 / 3e6, 7 / 9e5]
    return out + [-x for x in out[2:40]]


def validate_repr_grammar(n=400, seed=0):
    import z3
    from .. import rx2z3 as R
    g = repr_grammar()['G']
    rng = random.Random(seed)
    xs = list(corner_floats())
    while len(xs) < n:
        x = struct.unpack('<d', struct.pack('<Q', rng.getrandbits(64)))[0]
        if math.isfinite(x):
            xs.append(x)
    bad = []
    for x in xs:
        sol = z3.Solver()
        sol.set('timeout', 20000)
        sol.add(z3.InRe(R.strval(repr(x)), g))
        if str(sol.check()) != 'sat':
            bad.append(repr(x))
    return bad


def _cleanup_regex_of_value_string():
    """the regex value_string applies to str(float), found in the live AST (None when the float branch no longer uses one)"""
    import bare_script.value as V
    tree = ast.parse(textwrap.dedent(inspect.getsource(V.value_string)))
    for node in ast.walk(tree):
        if isinstance(node, ast.Call) and isinstance(node.func, ast.Attribute) and node.func.attr == 'sub' and isinstance(node.func.value, ast.Name):
            obj = getattr(V, node.func.value.id, None)
            if isinstance(obj, re.Pattern) and node.args and isinstance(node.args[0], ast.Constant) and node.args[0].value == '' \
                    and len(node.args) > 1 and isinstance(node.args[1], ast.Call) and getattr(node.args[1].func, 'id', None) == 'str':
                return node.func.value.id, obj
    return None, None


def replay_float_text(text):
    x = float(text)
    return check_float(x)


def check_float(x):
    """real stringification + real parsers on one finite float -> (ok, info)"""
    from bare_script.value import value_string
    from bare_script.library import SCRIPT_FUNCTIONS
    from bare_script import parse_expression, evaluate_expression
    from bare_script.parser import BareScriptParserError
    t = value_string(x)
    info = {'x': repr(x), 'text': t}
    back = SCRIPT_FUNCTIONS['numberParseFloat']([t], None)
    if not (isinstance(back, (int, float)) and back == x):
        info.update(clause='numberParseFloat(stringified x) != x', back=repr(back))
        return False, info
    if x == int(x) and abs(x) < 1e15 and ('.' in t or 'e' in t):
        info.update(clause='integral value printed with a fraction/exponent')
        return False, info
    if SCRIPT_FUNCTIONS['stringNew']([x], None) != t or SCRIPT_FUNCTIONS['arrayJoin']([[x], ','], None) != t:
        info.update(clause='stringNew/arrayJoin disagree with string concatenation')
        return False, info
    if x >= 0 and not (x == 0 and math.copysign(1, x) < 0):
        try:
            v = evaluate_expression(parse_expression(t))
        except BareScriptParserError as exc:
            info.update(clause='stringified non-negative number is not a numeric literal', error=exc.error)
            return False, info
        if not (isinstance(v, (int, float)) and v == x):
            info.update(clause='stringified number re-read as a literal gives another value', literal_value=repr(v))
            return False, info
    return True, {}


def lemma_cleanup():
    import z3
    import bare_script.value as V
    from .. import rx2z3 as R
    bad = validate_repr_grammar()
    if bad:
        return {'state': 'error', 'error': f'repr(float) outside the modelled grammar: {bad[:3]}'}
    name, pat = _cleanup_regex_of_value_string()
    if pat is None:
        return {'state': 'skipped', 'why': 'value_string no longer cleans str(float) with <regex>.sub("", str(value)) (structure changed)'}
    try:
        rx = R.Rx(pat)
    except R.Unsupported as exc:
        return {'state': 'skipped', 'why': str(exc)}
    g = repr_grammar()
    T = z3.String('T')
    fires = rx.lang_search()
    for what, cons in (('fires on a repr text that is not intpart.0+', [z3.InRe(T, g['G']), z3.InRe(T, fires), z3.Not(z3.InRe(T, g['intzeros']))]),
                       ('does not fire on intpart.0+', [z3.InRe(T, g['intzeros']), z3.Not(z3.InRe(T, fires))])):
        sol = z3.Solver(); sol.set('timeout', 120000)
        sol.add(*cons, z3.Length(T) <= 30)
        r = str(sol.check())
        if r == 'sat':
            text = R.py_str(R.model_str(sol.model(), T))
            try:
                ok, info = replay_float_text(text)
            except (ValueError, OverflowError):
                ok, info = True, {}
            if not ok:
                info['lemma'] = what
                return {'state': 'violation', 'detail': info, 'replay': {'module': 'vf.props.c13', 'fn': 'replay_float_text', 'kwargs': {'text': text}}}
            return {'state': 'inconclusive', 'why': f'{name}: {what}: candidate {text!r} replays faithfully'}
        if r != 'unsat':
            return {'state': 'inconclusive', 'why': f'{what}: {r}'}
    # the match is the suffix from the decimal point: removing it leaves intpart (same value)
    sol = z3.Solver(); sol.set('timeout', 120000)
    sol.add(z3.InRe(T, g['intzeros']), z3.InRe(T, z3.Concat(g['intpart'], R.re_char(ord('.')), z3.Star(R.re_char(0x30)), rx.body, R.FULL)), z3.Length(T) <= 30)
    notes = 'no second match after the decimal point: ' + str(sol.check())
    return {'state': 'unsat', 'lemma': f'{name} fires on repr(float) exactly for intpart.0+ (|T|<=30)', 'notes': notes}


def lemma_literal():
    import z3
    import bare_script.parser as P
    from .. import rx2z3 as R
    name, pat = _cleanup_regex_of_value_string()
    try:
        rx = R.Rx(P._R_EXPR_NUMBER, ascii_only=True)
        num = rx.group(1)
    except (R.Unsupported, KeyError) as exc:
        return {'state': 'skipped', 'why': f'numeric literal regex: {exc}'}
    g = repr_grammar()
    nonneg = z3.Complement(z3.Concat(R.re_char(ord('-')), R.FULL))
    T = z3.String('T')
    cleaned = R.union([z3.Intersect(g['G'], z3.Complement(g['intzeros'])), g['intpart']])
    sol = z3.Solver(); sol.set('timeout', 120000)
    sol.add(z3.InRe(T, cleaned), z3.InRe(T, nonneg), z3.Not(z3.InRe(T, num)), z3.Length(T) <= 30)
    for _ in range(5):
        r = str(sol.check())
        if r == 'unsat':
            return {'state': 'unsat', 'lemma': 'cleaned non-negative number texts are within L(numeric literal) (|T|<=30)'}
        if r != 'sat':
            return {'state': 'inconclusive', 'why': r}
        text = R.py_str(R.model_str(sol.model(), T))
        try:
            x = float(text)
            ok, info = check_float(x) if repr(x) == text or repr(x).rstrip('0').rstrip('.') == text else (True, {})
        except (ValueError, OverflowError):
            ok, info = True, {}
        if not ok:
            return {'state': 'violation', 'detail': info, 'replay': {'module': 'vf.props.c13', 'fn': 'replay_float_text', 'kwargs': {'text': text}}}
        sol.add(T != R.strval(text))
    return {'state': 'inconclusive', 'why': 'grammar texts outside the literal language exist but are not real reprs'}


CORE = '''
import math
from vf.props.c13 import corner_floats, check_float
from bare_script.value import value_string
from bare_script.library import SCRIPT_FUNCTIONS
POOL = corner_floats()
LO, HI = {lo}, {hi}
NEAR = ['nan', 'NaN', 'inf', '-inf', 'Infinity', '+Infinity', '1e', 'e5', '.', '-', '+', '1..2', '0x10', '1,5', '1e999', '-1e400', '2e+308',
        '', 'abc', '1.5.2', '--1', '1e+', 'infinity', '1.0e309', 'nan(1)', '12abc', '1 2']


def core_pool(k):
    x = None
    for j in range(LO, HI):
        if k == j:
            x = POOL[j]
    return check_float(x)


def core_int(i):
    t = value_string(i)
    ok = t == str(i) and SCRIPT_FUNCTIONS['stringNew']([i], None) == t
    return ok, {{'i': i, 'text': t}}


def core_sci(m, e, neg):
    text = ('-' if neg else '') + str(m) + 'e' + str(e)
    return _parse_ok(text)


PI_TEXTS = ['12', 'fg', 'z', '10', '7', '19', '2', 'g', '101', 'Zz', '-11', '+7', '1_0', ' 12 ', '']


def core_parseint(t, radix):
    text = PI_TEXTS[0]
    for j in range(len(PI_TEXTS)):
        if t == j:
            text = PI_TEXTS[j]
    r = SCRIPT_FUNCTIONS['numberParseInt']([text, radix], None)
    # specification: optional sign, then one or more digits all smaller than the radix (0-9, a-z case-insensitive); anything else -> null
    body = text.strip()
    sign = 1
    if body[:1] in ('+', '-'):
        sign = -1 if body[0] == '-' else 1
        body = body[1:]
    digits = []
    for c in body.lower():
        v = ord(c) - 48 if '0' <= c <= '9' else (ord(c) - 87 if 'a' <= c <= 'z' else 99)
        digits.append(v)
    if not digits or any(v >= radix for v in digits):
        want = None
    else:
        want = 0
        for v in digits:
            want = want * radix + v
        want *= sign
    if '_' in text:
        return True, {{}}          # digit-group underscores: host-syntax corner, not demanded either way
    if r != want or (r is None) != (want is None):
        return False, {{'clause': 'numberParseInt must return the integer value of the text in the radix, or null', 'text': text, 'radix': radix,
                       'result': repr(r), 'expected': repr(want)}}
    return True, {{}}


def core_near(k):
    text = NEAR[0]
    for j in range(len(NEAR)):
        if k == j:
            text = NEAR[j]
    r = SCRIPT_FUNCTIONS['numberParseFloat']([text], None)
    if r is not None:
        return False, {{'clause': 'numberParseFloat must return null for text that is not a number', 'text': text, 'result': repr(r)}}
    r = SCRIPT_FUNCTIONS['numberParseInt']([text], None)
    if r is not None and text not in ('0x10',):
        return False, {{'clause': 'numberParseInt must return null for text that is not a number', 'text': text, 'result': repr(r)}}
    return True, {{}}


def _parse_ok(text):
    r = SCRIPT_FUNCTIONS['numberParseFloat']([text], None)
    try:
        want = float(text)
    except ValueError:
        want = None
    if want is not None and not math.isfinite(want):
        want = None
    if r is None and want is None:
        return True, {{}}
    if r is None or want is None or not (isinstance(r, (int, float)) and math.isfinite(r) and r == want):
        return False, {{'clause': 'numberParseFloat must return the finite value of a number text or null', 'text': text, 'result': repr(r), 'expected': repr(want)}}
    return True, {{}}
'''


def near_native():
    import importlib.util, os, tempfile
    from .. import hgen as _h
    d = tempfile.mkdtemp(prefix='c13near')
    try:
        path = _h.write_module(d, 'c13_near_mod', CORE.format(lo=0, hi=0), stub=False)
        spec = importlib.util.spec_from_file_location('c13_near_mod', path)
        mod = importlib.util.module_from_spec(spec)
        spec.loader.exec_module(mod)
        for k in range(len(mod.NEAR)):
            ok, info = mod.core_near(k)
            if not ok:
                return {'state': 'violation', 'detail': info, 'replay': {'module': 'vf.props.c13', 'fn': 'replay_near', 'kwargs': {'k': k}}}
        return {'state': 'ok', 'checked': len(mod.NEAR)}
    finally:
        import shutil
        shutil.rmtree(d, ignore_errors=True)


def replay_near(k):
    import importlib.util, tempfile, shutil
    from .. import hgen as _h
    d = tempfile.mkdtemp(prefix='c13near')
    try:
        path = _h.write_module(d, 'c13_near_mod', CORE.format(lo=0, hi=0), stub=False)
        spec = importlib.util.spec_from_file_location('c13_near_mod', path)
        mod = importlib.util.module_from_spec(spec)
        spec.loader.exec_module(mod)
        return mod.core_near(k)
    finally:
        shutil.rmtree(d, ignore_errors=True)


def plan(tier, seed, workdir):
    import bare_script.value as V
    import bare_script.parser as P
    p = Plan('C13', 'exploration')
    p.encode(V.value_string, V.value_parse_number, V.value_parse_integer)
    p.functions_encoded.append({'name': 'bare_script.value.R_NUMBER_CLEANUP', 'pattern': V.R_NUMBER_CLEANUP.pattern})
    p.functions_encoded.append({'name': 'bare_script.parser._R_EXPR_NUMBER', 'pattern': P._R_EXPR_NUMBER.pattern})
    p.add({'kind': 'lemma', 'id': 'lemma_cleanup', 'module': 'vf.props.c13', 'fn': 'lemma_cleanup', 'kwargs': {}, 'timeout': 900, 'est': 90},
          family='E2 clean-up regex vs repr grammar')
    p.add({'kind': 'lemma', 'id': 'lemma_literal', 'module': 'vf.props.c13', 'fn': 'lemma_literal', 'kwargs': {}, 'timeout': 600, 'est': 30},
          family='E2 cleaned texts within the numeric-literal language')
    n = len(corner_floats())
    timeout = 120 if tier == 'quick' else 600
    step = 40
    for lo in range(0, n, step):
        body = CORE.format(lo=lo, hi=min(n, lo + step))
        body += hgen.harness('pool', 'k: int', [f'{lo} <= k < {min(n, lo + step)}'], core_call='core_pool(k)')
        path = hgen.write_module(workdir, f'c13_pool{lo:03d}', body, stub=False)
        hgen.ch_tasks(p, path, 'pool', timeout, est=20, family='E1 float corner pool', range=[lo, min(n, lo + step)], enum={'k': list(range(lo, min(n, lo + step)))})
    body = CORE.format(lo=0, hi=0)
    body += hgen.harness('int', 'i: int', ['-70 <= i <= 70'], core_call='core_int(i)')
    body += hgen.harness('parseint', 't: int, radix: int', ['0 <= t < 15', '2 <= radix <= 36'], core_call='core_parseint(t, radix)')
    erange = 330 if tier == 'quick' else 420
    path = hgen.write_module(workdir, 'c13_misc', body, stub=False)
    hgen.ch_tasks(p, path, 'int', timeout, family='E1 value_string(int)')
    hgen.ch_tasks(p, path, 'parseint', timeout, family='E1 numberParseInt over a text pool x symbolic radix',
                  enum={'t': list(range(15)), 'radix': list(range(2, 37))})
    p.add({'kind': 'native', 'id': 'near_native', 'module': 'vf.props.c13', 'fn': 'near_native', 'kwargs': {}, 'timeout': 120},
          family='near-miss texts for the parsers (concrete pool, native by-product)')
    for neg in (False, True):
        for elo in range(-erange, erange, 110):
            body = CORE.format(lo=0, hi=0)
            body += hgen.harness('sci', 'm: int, e: int', ['1 <= m <= 3', f'{elo} <= e < {elo + 110}'], core_call=f'core_sci(m, e, {neg})')
            path = hgen.write_module(workdir, f'c13_sci_{"n" if neg else "p"}_{elo + erange:03d}', body, stub=False)
            hgen.ch_tasks(p, path, 'sci', timeout, est=30, family='E1 solver-chosen mantissa/exponent text', neg=neg, exponents=[elo, elo + 110],
                          enum={'m': [1, 2, 3], 'e': list(range(elo, elo + 110))})
    p.rule = ('2 z3 regular-language lemmas on the live clean-up and literal regexes; CrossHair conditions over a solver-indexed float corner '
              'pool, symbolic ints, solver-chosen m e<exp> texts and near-miss texts')
    p.bounds = ['|T| <= 30 characters in the lemmas; repr grammar over-approximates real reprs (validated on 400 reprs incl. corner list)',
                f'{n} corner floats (powers of ten 1e-320..1e308 step 7, 2^53 neighbourhood, 1e15/1e16/1e21, subnormals, -0.0)',
                f'texts m e<exp>: m in 1..3, exp in -{erange}..{erange}, both signs']
    p.stubs = []
    p.outside = ['float(repr(x)) == x for all doubles: CPython dtoa/strtod, C code, not encodable - assumption', 'what float()/int() accept beyond the listed texts']
    p.assumptions = ['z3 string theory', 'CPython repr/float round-trip guarantee', 'regex greedy matching takes the whole literal when the text is in the language']
    p.samples = [{'float': repr(x), 'text_rule': 'value_string -> numberParseFloat -> literal'} for x in corner_floats()[:5]]
    return p
