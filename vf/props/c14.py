"""
C14 JSON fidelity.

E2: the whole-text regex steps of value_json / jsonStringify / jsonParse are discovered from the live AST; for each
step the solver is asked for a JSON text (grammar of the C encoder's output, validated every run) on which the step
touches a string token, and for number tokens whose value the step changes.  Steps whose first alternative provably
consumes every string token whole (language inclusion + prefix-freeness, z3) are proved safe for strings for ALL texts;
otherwise every `sat` model is decoded and replayed through the real jsonStringify/jsonParse.
E1: CrossHair round trip with symbolic int/bool/null leaves, solver-indexed punctuation strings and symbolic indent.
"""
import ast
import inspect
import json
import random
import re
import textwrap

from ..engine import Plan
from .. import hgen


# --------------------------------------------------------------------------------------------------------------------
# grammar of json.JSONEncoder output (ensure_ascii=True, compact separators), as z3 regexes

def grammar(depth=2):
    import z3
    from .. import rx2z3 as R
    plain = z3.Intersect(R.re_range(0x20, 0x7e), z3.Complement(R.union([R.re_char(0x22), R.re_char(0x5c)])))
    hexd = R.union([R.re_range(0x30, 0x39), R.re_range(0x61, 0x66)])
    esc = z3.Concat(R.re_char(0x5c), R.union([R.re_char(ord(c)) for c in '"\\nrtbf'] + [z3.Concat(R.re_char(ord('u')), z3.Loop(hexd, 4, 4))]))
    strchar = R.union([plain, esc])
    STR = z3.Concat(R.re_char(0x22), z3.Star(strchar), R.re_char(0x22))
    digit = R.re_range(0x30, 0x39)
    intpart = z3.Concat(z3.Option(R.re_char(ord('-'))), R.union([R.re_char(0x30), z3.Concat(R.re_range(0x31, 0x39), z3.Star(digit))]))
    frac = z3.Concat(R.re_char(ord('.')), z3.Plus(digit))
    expo = z3.Concat(R.re_char(ord('e')), R.union([R.re_char(ord('+')), R.re_char(ord('-'))]), digit, z3.Plus(digit))
    NUM = z3.Concat(intpart, z3.Option(frac), z3.Option(expo))
    lit = R.union([z3.Re(z3.StringVal(w)) for w in ('true', 'false', 'null')])
    val = R.union([STR, NUM, lit])
    for _ in range(depth):
        arr = z3.Concat(R.re_char(ord('[')), z3.Option(z3.Concat(val, z3.Star(z3.Concat(R.re_char(ord(',')), val)))), R.re_char(ord(']')))
        pair = z3.Concat(STR, R.re_char(ord(':')), val)
        obj = z3.Concat(R.re_char(ord('{')), z3.Option(z3.Concat(pair, z3.Star(z3.Concat(R.re_char(ord(',')), pair)))), R.re_char(ord('}')))
        val = R.union([val, arr, obj])
    # a prefix of a JSON text that ends strictly inside a string token
    tokens = z3.Star(R.union([STR, NUM, lit] + [R.re_char(ord(c)) for c in '[]{},:']))
    inside = z3.Concat(tokens, R.re_char(0x22), z3.Star(strchar))
    return {'STR': STR, 'NUM': NUM, 'VAL': val, 'INSIDE': inside, 'strchar': strchar, 'digit': digit, 'intpart': intpart}


def _random_value(rng, depth):
    k = rng.random()
    if depth == 0 or k < 0.55:
        c = rng.randrange(7)
        if c == 0:
            return rng.choice([None, True, False])
        if c == 1:
            return rng.randrange(-10 ** rng.randrange(1, 18), 10 ** rng.randrange(1, 18))
        if c == 2:
            return rng.choice([0.0, -0.0, 1.5, 1e16, 1e-7, 5e-324, 1.7976931348623157e308, 123456.789, -2.5e-10, 1e22, 0.1, 100.0])
        if c == 3:
            return rng.uniform(-1e6, 1e6) * 10 ** rng.randrange(-20, 20)
        return ''.join(rng.choice(['a', '.', '0', ',', ']', '}', '"', '\\', '/', '\n', '\t', '\x01', '\x7f', 'é', ' ', '😀', ' ', 'e', '-', '1'])
                       for _ in range(rng.randrange(0, 6)))
    if k < 0.8:
        return [_random_value(rng, depth - 1) for _ in range(rng.randrange(0, 4))]
    return dict((_random_value(rng, 0) if False else ''.join(rng.choice('ab.0,]}"\\') for _ in range(rng.randrange(0, 4))), _random_value(rng, depth - 1))
                for _ in range(rng.randrange(0, 3)))


def validate_grammar(n=150, seed=0):
    """the z3 grammar must contain what the real C encoder emits"""
    import z3
    import bare_script.value as V
    from .. import rx2z3 as R
    g = grammar(2)
    rng = random.Random(seed)
    bad = []
    for _ in range(n):
        v = _random_value(rng, 2)
        text = V._JSON_ENCODER_DEFAULT.encode(v)
        sol = z3.Solver()
        sol.set('timeout', 30000)
        sol.add(z3.InRe(R.strval(text), g['VAL']))
        if str(sol.check()) != 'sat':
            bad.append(text[:80])
    return bad


# --------------------------------------------------------------------------------------------------------------------
# discovery of whole-text regex steps in the live code

def discover_steps():
    """-> list of dicts {where, regex_name, regex, repl_kind} for every <module regex>.sub(<repl>, <text>) applied in value_json,
    _json_stringify and _json_parse"""
    import bare_script.value as V
    import bare_script.library as L
    steps = []
    for mod, fn in ((V, V.value_json), (L, L._json_stringify), (L, L._json_parse)):
        tree = ast.parse(textwrap.dedent(inspect.getsource(fn)))
        for node in ast.walk(tree):
            if isinstance(node, ast.Call) and isinstance(node.func, ast.Attribute) and node.func.attr in ('sub', 'subn') \
                    and isinstance(node.func.value, ast.Name):
                obj = getattr(mod, node.func.value.id, None)
                if isinstance(obj, re.Pattern):
                    repl = node.args[0] if node.args else None
                    kind = 'template' if isinstance(repl, ast.Constant) else 'callback'
                    steps.append({'where': fn.__name__, 'regex_name': node.func.value.id, 'module': mod.__name__, 'repl_kind': kind,
                                  'side': 'parse' if fn is L._json_parse else 'stringify'})
    return steps


def roundtrip(value, indent=None):
    """real jsonStringify / jsonParse through the script library -> None if faithful else description"""
    from bare_script.library import SCRIPT_FUNCTIONS
    args = [value] if indent is None else [value, indent]
    text = SCRIPT_FUNCTIONS['jsonStringify'](list(args), None)
    floats = []
    unsorted = []

    def pairs(items):
        keys = [k for k, _ in items]
        if keys != sorted(keys):
            unsorted.append(keys)
        return dict(items)
    try:
        std = json.loads(text, parse_float=lambda lit: (floats.append(lit), float(lit))[1], object_pairs_hook=pairs)
    except (ValueError, TypeError) as exc:
        return {'clause': 'jsonStringify output is not valid JSON', 'value': repr(value)[:200], 'text': repr(text)[:200], 'error': str(exc)[:80]}
    if unsorted:
        return {'clause': 'object keys are not written in sorted order', 'value': repr(value)[:200], 'text': repr(text)[:200], 'keys': unsorted[0]}
    for lit in floats:
        if re.fullmatch(r'-?\d+\.0+', lit):
            return {'clause': 'integral number written with a fraction', 'value': repr(value)[:200], 'text': repr(text)[:200], 'literal': lit}
    if std != value:
        return {'clause': 'a standard JSON parser does not map jsonStringify(v) back to v', 'value': repr(value)[:200], 'text': repr(text)[:200]}
    back = SCRIPT_FUNCTIONS['jsonParse']([text], None)
    if back != value:
        return {'clause': 'jsonParse(jsonStringify(v)) != v', 'value': repr(value)[:200], 'text': repr(text)[:200], 'back': repr(back)[:200]}
    return None


def replay_text(text, indent=None):
    """decode a solver-proposed JSON text and push the value through the real functions"""
    value = json.loads(text)
    for ind in (None, 2) if indent is None else (indent,):
        bad = roundtrip(value, ind)
        if bad is not None:
            bad['json_text_from_solver'] = text
            return False, bad
    return True, {}


def _get_regex(step):
    import importlib
    return getattr(importlib.import_module(step['module']), step['regex_name'])


def lemma_step(index):
    """string tokens: proved untouched (protected step) or searched for a counterexample (plain step)"""
    import z3
    from .. import rx2z3 as R
    steps = discover_steps()
    if index >= len(steps):
        return {'state': 'skipped', 'why': 'no such step any more'}
    step = steps[index]
    pat = _get_regex(step)
    try:
        rx = R.Rx(pat)
        alts = rx.alternatives()
    except R.Unsupported as exc:
        return {'state': 'skipped', 'why': f'{step["regex_name"]}: {exc}'}
    g = grammar(2)
    quote = R.re_char(0x22)
    has_quote = z3.Concat(R.FULL, quote, R.FULL)
    notes = []
    protected = False
    if step['repl_kind'] == 'callback' and len(alts) >= 2 and not (rx.start or rx.end):
        a1 = alts[0][0]
        x, y = z3.String('x'), z3.String('y')
        s1 = z3.Solver(); s1.set('timeout', 120000)
        s1.add(z3.InRe(x, g['STR']), z3.Not(z3.InRe(x, a1)), z3.Length(x) <= 40)
        s2 = z3.Solver(); s2.set('timeout', 120000)
        s2.add(z3.InRe(x, a1), z3.InRe(z3.Concat(x, y), a1), z3.Length(y) >= 1, z3.Length(x) + z3.Length(y) <= 40)
        r1, r2 = str(s1.check()), str(s2.check())
        others_quote_free = True
        for body, _la in alts[1:]:
            s3 = z3.Solver(); s3.set('timeout', 120000)
            s3.add(z3.InRe(x, body), z3.InRe(x, has_quote), z3.Length(x) <= 40)
            if str(s3.check()) != 'unsat':
                others_quote_free = False
        # the callback must return a string token unchanged: validated on concrete matches
        cb_ok = all(pat.sub(_callback_of(step), t) == t for t in ('"a.0,"', '"\\\\"', '"\\".0]"', '""', '"1.0"', '"x\\n1.0}"'))
        protected = (r1 == 'unsat' and r2 == 'unsat' and others_quote_free and cb_ok)
        notes.append(f'STR within L(alt1): {r1}; alt1 prefix-free: {r2}; other alternatives quote-free: {others_quote_free}; callback keeps strings: {cb_ok}')
    tried = []
    if not protected:
        # can any alternative fire at a position inside a string token of some JSON text?  (candidate + replay)
        T, pre, m, post = z3.String('T'), z3.String('pre'), z3.String('m'), z3.String('post')
        for k, (body, la) in enumerate(alts):
            sol = z3.Solver(); sol.set('timeout', 120000)
            sol.add(T == z3.Concat(pre, m, post), z3.InRe(T, g['VAL']), z3.InRe(pre, g['INSIDE']), z3.InRe(m, body), z3.Length(m) >= 1,
                    z3.Length(T) <= 30)
            if la is not None:
                sol.add(z3.Or(z3.Length(post) == 0, z3.Not(z3.InRe(z3.SubString(post, 0, 1), la))))
            if rx.end:
                sol.add(z3.Or(z3.Length(post) == 0, z3.PrefixOf(R.strval(chr(10)), post)) if rx.multiline else z3.Length(post) == 0)
            for _ in range(8):
                r = str(sol.check())
                if r != 'sat':
                    notes.append(f'alternative {k}: fires inside a string token: {r}')
                    break
                text = R.py_str(R.model_str(sol.model(), T))
                try:
                    ok, info = replay_text(text)
                except ValueError:
                    ok, info = True, {}
                if not ok:
                    info['step'] = step
                    return {'state': 'violation', 'detail': info,
                            'replay': {'module': 'vf.props.c14', 'fn': 'replay_text', 'kwargs': {'text': text}}}
                tried.append(text)
                sol.add(T != R.strval(text))
            else:
                notes.append(f'alternative {k}: 8 regex-level candidates, none breaks the round trip')
    if protected:
        return {'state': 'unsat', 'lemma': f'{step["regex_name"]} ({step["where"]}): string tokens are consumed whole and returned unchanged', 'notes': notes}
    if tried:
        return {'state': 'inconclusive', 'why': f'{step["regex_name"]}: candidates exist at the regex level but replay faithfully: {tried[:3]}; {notes}'}
    return {'state': 'unsat', 'lemma': f'{step["regex_name"]} ({step["where"]}): never fires inside a string token of a JSON text (|T|<=30, depth<=2)',
            'notes': notes}


def _callback_of(step):
    import importlib
    mod = importlib.import_module(step['module'])
    fn = {'value_json': mod.__dict__.get('value_json')}.get(step['where'])
    tree = ast.parse(textwrap.dedent(inspect.getsource(getattr(mod, step['where']))))
    for node in ast.walk(tree):
        if isinstance(node, ast.Call) and isinstance(node.func, ast.Attribute) and node.func.attr == 'sub' and \
                getattr(node.func.value, 'id', None) == step['regex_name']:
            repl = node.args[0]
            if isinstance(repl, ast.Name):
                return getattr(mod, repl.id)
            if isinstance(repl, ast.Constant):
                return repl.value
    raise KeyError('callback not found')


def lemma_numbers(index):
    """number tokens only lose an all-zero fraction.  Pure regular-language queries (one string variable each):
    (a) a non-string alternative fires somewhere in NUM.delim only if the fraction is all zeros;
    (b) for such tokens a match exists at the token start and every match there is `intpart.0+` up to the end of the fraction;
    (c) nothing fires in what follows (exponent, delimiter).  With re.sub's left-to-right scan this gives: other numbers are untouched,
    all-zero fractions are dropped.  sat models are number tokens that are replayed through the real functions."""
    import z3
    from .. import rx2z3 as R
    steps = discover_steps()
    if index >= len(steps):
        return {'state': 'skipped', 'why': 'no such step any more'}
    step = steps[index]
    pat = _get_regex(step)
    try:
        rx = R.Rx(pat)
        alts = rx.alternatives()
    except R.Unsupported as exc:
        return {'state': 'skipped', 'why': f'{step["regex_name"]}: {exc}'}
    if rx.start or rx.end:
        alts = [(b, la) for b, la in alts]
    g = grammar(0)
    digit = g['digit']
    delim = R.union([R.re_char(ord(c)) for c in ',]}'] + [R.EPS])
    expo = z3.Concat(R.re_char(ord('e')), R.union([R.re_char(ord('+')), R.re_char(ord('-'))]), digit, z3.Plus(digit))
    zfrac = z3.Concat(R.re_char(ord('.')), z3.Plus(R.re_char(0x30)))
    ZNUM = z3.Concat(g['intpart'], zfrac, z3.Option(expo))
    w = z3.String('w')
    notes, tried = [], 0

    def tail(la):
        if rx.end:
            return R.EPS
        if la is None:
            return R.FULL
        return R.union([R.EPS, z3.Concat(z3.Intersect(R.ANY, z3.Complement(la)), R.FULL)])

    def check(constraints, what):
        nonlocal tried
        sol = z3.Solver(); sol.set('timeout', 120000)
        sol.add(*constraints, z3.Length(w) <= 26)
        while True:
            r = str(sol.check())
            if r == 'unsat':
                notes.append(what + ': unsat')
                return None
            if r != 'sat':
                return {'state': 'inconclusive', 'why': f'{step["regex_name"]}: {what}: solver {r}'}
            text = R.py_str(R.model_str(sol.model(), w))
            num = text.rstrip(',]}')
            try:
                ok, info = replay_number(num)
            except ValueError:
                ok, info = True, {}
            if not ok:
                info['step'] = step
                info['obligation'] = what
                return {'state': 'violation', 'detail': info, 'replay': {'module': 'vf.props.c14', 'fn': 'replay_number', 'kwargs': {'num': num}}}
            tried += 1
            sol.add(w != R.strval(text))
            if tried >= 25:
                return {'state': 'inconclusive', 'why': f'{step["regex_name"]}: {what}: 25 solver-proposed number tokens replay faithfully (no for-all verdict)'}

    numdelim = z3.Concat(g['NUM'], delim)
    for k, (body, la) in enumerate(alts):
        s0 = z3.Solver(); s0.set('timeout', 60000)
        x = z3.String('x')
        s0.add(z3.InRe(x, body), z3.PrefixOf(z3.StringVal('"'), x))
        if len(alts) > 1 and k == 0 and str(s0.check()) == 'sat':
            continue          # the string-token alternative (lemma_step deals with it)
        head = R.EPS if rx.start else R.FULL
        fires = z3.Concat(head, body, tail(la))
        at0 = z3.Concat(body, tail(la))
        bad = check([z3.InRe(w, numdelim), z3.InRe(w, fires), z3.Not(z3.InRe(w, z3.Concat(ZNUM, delim)))],
                    f'alt {k} (a) fires in a number whose fraction is absent or not all zeros')
        if bad:
            return bad
        bad = check([z3.InRe(w, z3.Concat(ZNUM, delim)), z3.Not(z3.InRe(w, at0))], f'alt {k} (b1) no match at the start of an int.0+ token')
        if bad:
            return bad
        good0 = z3.Concat(g['intpart'], zfrac)
        badprefix = z3.Intersect(body, z3.Complement(good0))
        bad = check([z3.InRe(w, z3.Concat(ZNUM, delim)), z3.InRe(w, z3.Concat(badprefix, tail(la)))],
                    f'alt {k} (b2) a match at the token start that is not intpart.0+')
        if bad:
            return bad
        bad = check([z3.InRe(w, z3.Concat(z3.Option(expo), delim)), z3.InRe(w, fires)], f'alt {k} (c) fires in the exponent/delimiter remainder')
        if bad:
            return bad
    # the replacement must be the integer part: validated concretely through the real function
    for num in ('1.0', '-0.0', '120.000', '1.0e+16', '7'):
        ok, info = replay_number(num)
        if not ok:
            return {'state': 'violation', 'detail': info, 'replay': {'module': 'vf.props.c14', 'fn': 'replay_number', 'kwargs': {'num': num}}}
    return {'state': 'unsat', 'lemma': f'{step["regex_name"]}: number tokens only lose an all-zero fraction', 'notes': notes}


def replay_number(num):
    v = json.loads(num)
    for value in (v, [v], {'k': v}, [v, v], [[v], 'a']):
        for ind in (None, 2):
            bad = roundtrip(value, ind)
            if bad is not None:
                return False, bad
    from bare_script.value import value_json
    if isinstance(v, float) and v == int(v) and abs(v) < 1e15 and '.' in value_json(v):
        return False, {'clause': 'integral number written with a fraction', 'value': repr(v), 'text': value_json(v)}
    return True, {}


def lemma_parse_side(index):
    """a text-rewriting step on the jsonParse side must be the identity on every jsonStringify output"""
    import z3
    from .. import rx2z3 as R
    steps = discover_steps()
    if index >= len(steps):
        return {'state': 'skipped', 'why': 'no such step any more'}
    step = steps[index]
    pat = _get_regex(step)
    try:
        rx = R.Rx(pat)
    except R.Unsupported as exc:
        return {'state': 'skipped', 'why': str(exc)}
    g = grammar(2)
    T = z3.String('T')
    sol = z3.Solver(); sol.set('timeout', 120000)
    sol.add(z3.InRe(T, g['VAL']), z3.InRe(T, rx.lang_search()), z3.Length(T) <= 30)
    tried = []
    for _ in range(10):
        r = str(sol.check())
        if r == 'unsat':
            if tried:
                return {'state': 'inconclusive', 'why': f'fires on {tried[:3]} but the round trip is faithful'}
            return {'state': 'unsat', 'lemma': f'{step["regex_name"]} never fires on a jsonStringify output'}
        if r != 'sat':
            return {'state': 'inconclusive', 'why': r}
        text = R.py_str(R.model_str(sol.model(), T))
        ok, info = replay_text(text)
        if not ok:
            info['step'] = step
            return {'state': 'violation', 'detail': info, 'replay': {'module': 'vf.props.c14', 'fn': 'replay_text', 'kwargs': {'text': text}}}
        tried.append(text)
        sol.add(T != R.strval(text))
    return {'state': 'inconclusive', 'why': f'fires on {tried[:3]} but the round trip is faithful'}


def native_parse_stateless():
    """jsonParse results are independent objects: editing one must not show in a later parse of the same text (run natively - CrossHair
    neutralises functools caches)"""
    import copy
    from bare_script.library import SCRIPT_FUNCTIONS
    n = 0
    for text in ('{"a":[1,2,{"b":null}],"c":"x"}', '[1,[2,[3]]]', '"s"', '{"k":{}}'):
        first = SCRIPT_FUNCTIONS['jsonParse']([text], None)
        want = copy.deepcopy(first)
        if isinstance(first, dict):
            first['__poison__'] = 1
            for v in first.values():
                if isinstance(v, list):
                    v.append('p')
                if isinstance(v, dict):
                    v['p'] = 1
        elif isinstance(first, list):
            first.append('p')
            if first and isinstance(first[1], list):
                first[1].append('p')
        second = SCRIPT_FUNCTIONS['jsonParse']([text], None)
        if second != want:
            return {'state': 'violation', 'detail': {'clause': 'jsonParse of the same text is affected by edits to an earlier result', 'text': text, 'second': repr(second)[:200]},
                    'replay': {'module': 'vf.props.c14', 'fn': 'replay_parse_stateless', 'kwargs': {}}}
        n += 1
    return {'state': 'ok', 'checked': n}


def replay_parse_stateless():
    r = native_parse_stateless()
    return r['state'] == 'ok', r.get('detail', {})


def lemma_grammar():
    bad = validate_grammar()
    if bad:
        return {'state': 'error', 'error': f'encoder output outside the modelled grammar: {bad[:3]}'}
    import bare_script.value as V
    enc = V._JSON_ENCODER_DEFAULT
    facts = {'sort_keys': enc.sort_keys, 'allow_nan': enc.allow_nan, 'separators': (enc.item_separator, enc.key_separator), 'ensure_ascii': enc.ensure_ascii}
    if not (enc.sort_keys and not enc.allow_nan and enc.ensure_ascii and enc.item_separator == ',' and enc.key_separator == ':'):
        return {'state': 'skipped', 'why': f'encoder configuration changed: {facts}'}
    return {'state': 'ok', 'checked': 150, 'facts': facts}


CORE = '''
import json
from vf.props.c14 import roundtrip
POOL = ['a', '.0,', '1.0]', 'x.0' + chr(125), '",]', '1e-05', chr(92), '"', '/', chr(10), chr(1), chr(0x1F600), 'a, ' + chr(125), '', '0.0', '.', '1.', ':1.0,', '-1.0']


def _pick(i):
    for j in range(len(POOL)):
        if i == j:
            return POOL[j]
    return POOL[0]


INTS = [0, -1, 7.0, 10 ** 11, -(2 ** 53), -7.0, 2.5]


def core_rt(ii, b, s1, indent):
    a, k = _pick(s1), POOL[0]
    for q in range(len(POOL)):
        if s1 == q:
            k = POOL[(q * 7 + 3) % len(POOL)]
    i = j = 0
    for q in range(len(INTS)):
        if ii == q:
            i, j = INTS[q], INTS[(q + 2) % len(INTS)]
    value = {shape}
    ind = None if indent == 0 else indent
    bad = roundtrip(value, ind)
    if bad is not None:
        return False, bad
    return True, {{}}
'''
SHAPES = ["{'zz': i, a: {'y': b, 'b': [j, k], 'a': None}, 'aa': 1, 'm': {'q': 1, 'c': 2}}", "[i, a, None, b, {k: j}]", "{k: [a, i], a: {'z': b, 'y': [j, k]}}", "[[a], [[k, i]], j, {}, []]", "{a: k, k + 'x': [i * 1.0, j + 0.5, a]}"]


def plan(tier, seed, workdir):
    import bare_script.value as V
    import bare_script.library as L
    p = Plan('C14', 'exploration')
    p.encode(V.value_json, L._json_stringify, L._json_parse)
    steps = discover_steps()
    p.add({'kind': 'native', 'id': 'grammar_validation', 'module': 'vf.props.c14', 'fn': 'lemma_grammar', 'kwargs': {}, 'timeout': 600, 'est': 60},
          family='translator validation: encoder output within the modelled grammar')
    p.add({'kind': 'native', 'id': 'parse_stateless', 'module': 'vf.props.c14', 'fn': 'native_parse_stateless', 'kwargs': {}, 'timeout': 120, 'est': 5},
          family='jsonParse keeps no state between calls (native)')
    for k, st in enumerate(steps):
        if st['side'] == 'stringify':
            p.add({'kind': 'lemma', 'id': f'step{k}_strings_{st["regex_name"]}', 'module': 'vf.props.c14', 'fn': 'lemma_step', 'kwargs': {'index': k},
                   'timeout': 900, 'est': 60}, family='E2 string tokens', step=st)
            p.add({'kind': 'lemma', 'id': f'step{k}_numbers_{st["regex_name"]}', 'module': 'vf.props.c14', 'fn': 'lemma_numbers', 'kwargs': {'index': k},
                   'timeout': 900, 'est': 60}, family='E2 number tokens', step=st)
        else:
            p.add({'kind': 'lemma', 'id': f'step{k}_parse_{st["regex_name"]}', 'module': 'vf.props.c14', 'fn': 'lemma_parse_side', 'kwargs': {'index': k},
                   'timeout': 900, 'est': 60}, family='E2 parse-side step', step=st)
    timeout = 120 if tier == 'quick' else 600
    for n, shape in enumerate(SHAPES if tier == 'thorough' else SHAPES[:3]):
        for indent in (0, 1, 2, 4) if tier == 'quick' else (0, 1, 2, 3, 4, 8):
            body = CORE.replace('{shape}', shape).replace('{{}}', '{}')
            body += hgen.harness('rt', 'ii: int, b: bool, s1: int', ['0 <= s1 < 19', '0 <= ii < 7'], core_call=f'core_rt(ii, b, s1, {indent})')
            path = hgen.write_module(workdir, f'c14_rt{n}_i{indent}', body, stub=False)
            hgen.ch_tasks(p, path, 'rt', timeout, twin_timeout=60, est=60, family='E1 round trip', shape=shape, indent=indent,
                          enum={'ii': list(range(7)), 'b': [False, True], 's1': list(range(19))})
    p.extra_coverage['whole_text_steps_found'] = steps
    p.rule = ('per whole-text regex step found in the live AST: one string-token lemma and one number-token lemma (z3; sat models decoded and '
              'replayed through the real functions); per value shape one CrossHair round-trip condition')
    p.bounds = ['JSON grammar depth <= 2, |T| <= 30-40 characters, compact separators (indent exercised by replay and by E1 only)',
                'number tokens <= 24 characters', 'E1: 19 pool strings, 7 pool numbers (ints, integral floats, a fraction), indent 0..3 (all chosen by symbolic indices)']
    p.stubs = []
    p.outside = ['the C encoder/decoder themselves (trusted; their output grammar is validated each run)', 'depth > 2 texts',
                 'floats in E1 except i*1.0 and j+0.5 forms']
    p.assumptions = ['z3 string theory', 'grammar of json.JSONEncoder output (validated on 150 random values per run)',
                     're.sub scans left to right and consumes each match (used in the leftmost-match argument of lemma_numbers)']
    p.samples = [{'step': s} for s in steps] + [{'shape': SHAPES[0]}]
    return p
