"""
C15 array/object/string contracts against reference list/dict/str models.

One CrossHair condition per library function (and per sampled/all pairs of functions): the pre-state of the container
pool (two possibly aliased arrays, two objects, three strings) and every index/count/value argument are symbolic;
after each call the result, every container (through every alias) and the freshness/identity of the result must
match the reference model.  Because the functions are stateless apart from the containers, one step from an arbitrary
symbolic pre-state covers that step in any longer history.
"""
import random

from ..engine import Plan
from .. import hgen
from ..hlib import c15ref

CORE = '''
from vf.hlib import c15lib
NAMES = {names!r}


def core_seq(e, nA, nB, alias, ka, kb, va, vb, S, T, U, ix, ix2, val, vs, kc, fl, na):
    return c15lib.run_sequence(NAMES, e, nA, nB, alias, ka, kb, va, vb, S, T, U, ix, ix2, val, vs, kc, fl, na)
'''
PARAMS = ('e: List[int], nA: int, nB: int, alias: bool, ka: bool, kb: bool, va: int, vb: int, S: str, T: str, U: str, '
          'ix: int, ix2: int, val: int, vs: bool, kc: bool, fl: bool, na: bool')
CALL = 'core_seq(e, nA, nB, alias, ka, kb, va, vb, S, T, U, ix, ix2, val, vs, kc, fl, na)'
STRINGY = {'stringLower', 'stringUpper', 'stringTrim', 'stringReplace', 'stringSplit'}


CORE_ESC = '''
import re, urllib.parse
from bare_script.library import SCRIPT_FUNCTIONS
POOL = ['a.b', 'a*b', '(', '[x]', 'a' + chr(92) + 'b', '^$', 'a b', chr(233), chr(0x1F600), 'a/b?c=d&e#f', '%41', '+', '', '{1,2}', 'a|b', chr(10), "it's", '~-_.!*()', 'x y+z']


def _pick(i):
    for j in range(len(POOL)):
        if i == j:
            return POOL[j]
    return POOL[0]


def core_escape(k, k2):
    s, other = _pick(k), _pick(k2)
    pat = SCRIPT_FUNCTIONS['regexEscape']([s], None)
    rx = SCRIPT_FUNCTIONS['regexNew']([pat], None)
    if rx is None or rx.fullmatch(s) is None:
        return False, {{'clause': 'regexEscape(s) must yield a pattern that matches s', 's': s, 'pattern': pat}}
    if other != s and rx.fullmatch(other) is not None:
        return False, {{'clause': 'regexEscape(s) must match exactly s', 's': s, 'pattern': pat, 'also_matches': other}}
    for fn in ('urlEncode', 'urlEncodeComponent'):
        enc = SCRIPT_FUNCTIONS[fn]([s], None)
        if not isinstance(enc, str) or urllib.parse.unquote(enc) != s:
            return False, {{'clause': fn + ' must be reversible by percent-decoding', 's': s, 'encoded': repr(enc)}}
    return True, {{}}
'''


CORE_EXTRA = '''
import functools
from bare_script.library import SCRIPT_FUNCTIONS
from bare_script.value import value_compare
from vf.hlib import c15lib, c15ref
FPOOL = [0.5, 0.25, 0.75, 1.5, -0.125, 2]
MIX = [0, 1, True, False, 'x', None, 1.0, '1']


def _pick(pool, i):
    for j in range(len(pool)):
        if i == j:
            return pool[j]
    return pool[0]


def core_sortfn(i0, i1, i2, n, scale):
    # arraySort with a script-style compare function that returns the (fractional) difference, or a scaled sign
    arr = [_pick(FPOOL, i0), _pick(FPOOL, i1), _pick(FPOOL, i2)][:3]
    arr = arr if n == 3 else (arr[:2] if n == 2 else arr[:1])
    src = list(arr)
    k = _pick([1, 0.5, 100], scale)

    def cmp(args, options):
        return (args[0] - args[1]) * k
    out = c15lib.call_real('arraySort', [arr, cmp])
    want = sorted(src)
    if out is not arr or list(out) != want:
        return False, {{'clause': 'arraySort with a compare function must order by the sign of its result, in place', 'input': repr(src),
                       'result': repr(out), 'expected': repr(want)}}
    return True, {{}}


def core_indexmix(i0, i1, i2, vi, n):
    arr = [_pick(MIX, i0), _pick(MIX, i1), _pick(MIX, i2)]
    arr = arr if n == 3 else (arr[:2] if n == 2 else arr[:1])
    val = _pick(MIX, vi)
    for name, ref in (('arrayIndexOf', c15ref.array_index_of), ('arrayLastIndexOf', c15ref.array_last_index_of)):
        got = c15lib.call_real(name, [list(arr), val])
        want = ref([list(arr), val])
        if got != want or isinstance(got, bool):
            return False, {{'clause': name + ' must find elements by the value comparison (true is not 1)', 'array': repr(arr), 'value': repr(val),
                           'result': repr(got), 'expected': repr(want)}}
    return True, {{}}
'''


def pre_for(names, tier):
    slen = 2 if tier == 'quick' else 3
    pre = ['len(e) == 5', '0 <= nA <= 3', '0 <= nB <= 2', f'len(S) <= {slen}', 'len(T) <= 1', 'len(U) <= 1',
           '(not fl) or (-2 <= ix <= 6 and -2 <= ix2 <= 6)']
    specs = [a for n in names for a in c15ref.FUNCS[n][0]]
    if any(c15ref.real_name(n) in ('stringIndexOf', 'stringLastIndexOf', 'stringSplit', 'stringReplace') for n in names):
        pre.append("T != ''")        # empty needle: host-convention corner, outside the claim
    if 'cnt' in specs:
        pre.append('ix <= 3 and ix2 <= 3')
    # parameters the sequence does not read are pinned so that the solver does not enumerate them
    used = set(specs)
    if not ({'A', 'B'} & used):
        pre.append('nA == 0 and nB == 0 and not alias')
    if 'B' not in used:
        pre.append('nB == 0')
    if not ({'O', 'O2'} & used):
        pre.append('not ka and not kb and not na')
    if 'S' not in used:
        pre.append("S == ''")
    if not ({'T', 'val', 'val2'} & used):
        pre.append("T == ''")
    if 'U' not in used:
        pre.append("U == ''")
    if not ({'ix', 'ix2', 'cnt'} & used):
        pre.append('ix == 0 and ix2 == 0 and not fl')
    if not ({'val', 'val2'} & used):
        pre.append('val == 0 and not vs')
    if 'key' not in used:
        pre.append('not kc')
    return pre


def plan(tier, seed, workdir):
    import bare_script.library as lib
    import bare_script.value as val
    p = Plan('C15', 'exploration')
    p.encode(val.value_args_validate)
    rng = random.Random(seed)
    names = sorted(c15ref.FUNCS)
    for n in sorted(set(c15ref.real_name(n) for n in names)):
        p.encode(lib.SCRIPT_FUNCTIONS[n])
    t1 = 90 if tier == 'quick' else 400
    seqs = [(n,) for n in names]
    mutators = ['arrayDelete', 'arrayExtend', 'arrayPop', 'arrayPush', 'arraySet', 'arrayShift', 'arraySort', 'objectAssign', 'objectDelete',
                'objectSet']
    readers = ['arrayCopy', 'arrayGet', 'arrayIndexOf2', 'arrayJoin', 'arrayLength', 'arraySlice', 'arraySlice1', 'objectCopy', 'objectGet2',
               'objectHas', 'objectKeys']
    pairs = [(a, b) for a in mutators + readers for b in mutators + readers
             if (a in mutators or b in mutators) and (a[0] == b[0])]       # same container family
    # copy/slice first, then mutate: freshness must show (arraySlice1 = whole-array slice)
    rng.shuffle(pairs)
    must = [('arraySlice1', 'arrayPush'), ('arrayCopy', 'arraySet'), ('arraySlice2', 'arrayPop'), ('objectCopy', 'objectSet'),
            ('arrayPush', 'arraySlice1'), ('arrayExtend', 'arrayExtend')]
    if tier == 'quick':
        pairs = must + [q for q in pairs if q not in must][:24]
    else:
        pairs = must + [q for q in pairs if q not in must]
    seqs += pairs
    for names_ in seqs:
        tag = '_'.join(names_)
        body = CORE.format(names=list(names_))
        body += hgen.harness('seq', PARAMS, pre_for(names_, tier), core_call=CALL)
        path = hgen.write_module(workdir, f'c15_{tag}', body)
        hgen.ch_tasks(p, path, 'seq', t1 if len(names_) == 1 else t1 * 2, twin_timeout=40, family=f'{len(names_)}-step', sequence=list(names_))
    body = CORE_EXTRA.replace('{{', '{').replace('}}', '}')
    body += hgen.harness('sortfn', 'i0: int, i1: int, i2: int, n: int, scale: int', ['0 <= i0 < 6', '0 <= i1 < 6', '0 <= i2 < 6', '1 <= n <= 3', '0 <= scale < 3'],
                         core_call='core_sortfn(i0, i1, i2, n, scale)')
    body += hgen.harness('indexmix', 'i0: int, i1: int, i2: int, vi: int, n: int', ['0 <= i0 < 8', '0 <= i1 < 8', '0 <= i2 < 8', '0 <= vi < 8', '1 <= n <= 3'],
                         core_call='core_indexmix(i0, i1, i2, vi, n)')
    path = hgen.write_module(workdir, 'c15_extra', body)
    hgen.ch_tasks(p, path, 'sortfn', t1, family='arraySort with a compare function returning differences',
                  enum={'i0': list(range(6)), 'i1': list(range(6)), 'i2': list(range(6)), 'n': [1, 2, 3], 'scale': [0, 1, 2]})
    hgen.ch_tasks(p, path, 'indexmix', t1, family='arrayIndexOf / arrayLastIndexOf over arrays mixing booleans, numbers, strings, null',
                  enum={'i0': list(range(8)), 'i1': list(range(8)), 'i2': list(range(8)), 'vi': list(range(8)), 'n': [1, 2, 3]})
    body = CORE_ESC.replace('{{', '{').replace('}}', '}')
    body += hgen.harness('escape', 'k: int, k2: int', ['0 <= k < 19', '0 <= k2 < 19'], core_call='core_escape(k, k2)')
    path = hgen.write_module(workdir, 'c15_escape', body)
    hgen.ch_tasks(p, path, 'escape', t1, family='regexEscape / urlEncode on solver-indexed pool strings (C boundaries: bug-finding over a pool)')
    p.rule = ('one CrossHair condition per library function (47 call layouts of the 39 array/object/string functions) and per pair of '
              'same-family functions with at least one mutator; symbolic container pre-state, indices, counts, values, aliasing flag, '
              'float-spelling flag')
    p.bounds = ['arrays <= 3 (+2) symbolic int elements, objects <= 2 keys, strings len <= 2 (quick) / 3 (thorough), T/U len <= 1',
                'indices unbounded symbolic ints (float spelling: -2..6 from a table)', 'counts <= 3',
                'sequence length <= 2; quick: 6 fixed + 24 seeded pairs, thorough: all same-family pairs with a mutator']
    p.stubs = ['ValueArgsError message formatting']
    p.outside = ['histories longer than 2 calls (covered by the one-step-from-arbitrary-state argument, not run)',
                 'regexEscape matches exactly s / URL encoding reversibility for ALL strings: re and urllib.parse.quote are C boundaries (not applicable); a 19-string pool is checked',
                 'wrong-kind arguments (checked under C05)', 'empty search/separator strings for stringIndexOf/LastIndexOf/Split/Replace', 'arrays nested in arrays']
    p.assumptions = ['reference models vf/hlib/c15ref.py', 'CrossHair/z3 models of list/dict/str', 'value_compare equality for arrayIndexOf (C11)']
    p.samples = [{'sequence': list(s), 'arg_specs': [c15ref.FUNCS[n][0] for n in s]} for s in seqs[:3] + seqs[-2:]]
    return p
