"""
C16 datetime construction, arithmetic and ISO text.

E2 (z3, all integers): the real AST of library._datetime_new is executed symbolically (vf.symint):
  carry      the millisecond/second/minute/hour/month carry chain equals floor-division normal form, for ALL integers;
  loop k     each day-adjust `while` preserves  days_from_civil(year, month, 1) + day  and 1 <= month <= 12 (one inductive step
             from an arbitrary state), makes progress, and exits with 1 <= day <= month length: correct for every iteration count;
  unique     a (year, month, day) with 1<=month<=12, 1<=day<=len(month) is determined by its day number (so the loops' result is
             THE proleptic-Gregorian date).
  calendar.monthrange is axiomatised by the Gregorian rule; that model and days_from_civil are validated against the C library.
E1 (CrossHair): datetimeNew + getters against ordinal arithmetic on solver-chosen components; add-then-subtract of n ms.
Not applicable: "whatever the process time zone is" (tzset/mktime/tz database are C library state, not solver variables); the ISO
round trip is replayed concretely under the listed TZ values as a by-product.
"""
import ast
import calendar
import datetime
import os

from ..engine import Plan
from .. import hgen


def z3_mdays(y, m):
    import z3
    leap = z3.Or(z3.And(y % 4 == 0, y % 100 != 0), y % 400 == 0)
    return z3.If(m == 2, z3.If(leap, 29, 28), z3.If(z3.Or(m == 4, m == 6, m == 9, m == 11), 30, 31))


def z3_dfc(y, m, d):
    """days_from_civil (proleptic Gregorian day number, 1970-01-01 = 0) - integer arithmetic with constant divisors"""
    import z3
    yy = z3.If(m <= 2, y - 1, y)
    era = yy / 400
    yoe = yy - era * 400
    mp = z3.If(m > 2, m - 3, m + 9)
    doy = (153 * mp + 2) / 5 + d - 1
    doe = yoe * 365 + yoe / 4 - yoe / 100 + doy
    return era * 146097 + doe - 719468


def py_dfc(y, m, d):
    yy = y - 1 if m <= 2 else y
    era = yy // 400
    yoe = yy - era * 400
    mp = m - 3 if m > 2 else m + 9
    doy = (153 * mp + 2) // 5 + d - 1
    doe = yoe * 365 + yoe // 4 - yoe // 100 + doy
    return era * 146097 + doe - 719468


def validate_calendar_model():
    """the axiomatised month length and day number must agree with the C library (calendar.monthrange, date.toordinal)"""
    import z3
    bad = []
    epoch = datetime.date(1970, 1, 1).toordinal()
    for y in list(range(1, 9999, 37)) + [1600, 1700, 1800, 1900, 2000, 2100, 2400, 4, 100, 400, 9999]:
        for m in range(1, 13):
            want = calendar.monthrange(y, m)[1]
            got = z3.simplify(z3_mdays(z3.IntVal(y), z3.IntVal(m))).as_long()
            if got != want:
                bad.append(('mdays', y, m, got, want))
            for d in (1, want):
                if py_dfc(y, m, d) != datetime.date(y, m, d).toordinal() - epoch:
                    bad.append(('dfc', y, m, d))
                if z3.simplify(z3_dfc(z3.IntVal(y), z3.IntVal(m), z3.IntVal(d))).as_long() != py_dfc(y, m, d):
                    bad.append(('z3dfc', y, m, d))
    return bad


def _symbolic_run(loop_hook):
    import z3
    import bare_script.library as L
    from .. import symint as SI
    names = ['year', 'month', 'day', 'hour', 'minute', 'second', 'millisecond']
    ins = [z3.Int(n + '0') for n in names]
    calls = {
        'value_args_validate': lambda model, args, *rest: tuple(ins),
        'calendar.monthrange': lambda y, m: (0, z3_mdays(SI.lift(y), SI.lift(m))),
        'datetime.datetime': lambda *a: ('$datetime',) + tuple(a),
    }
    interp = SI.SymInt(L, calls, unroll=0, loop_hook=loop_hook)
    ret, fr = interp.run(L._datetime_new, ['$args', None])
    return ins, ret, fr, interp


def _model_constraints(ins):
    """preconditions = the live argument model of datetimeNew (read from library._DATETIME_NEW_ARGS)"""
    import bare_script.library as L
    cons = []
    for var, arg in zip(ins, L._DATETIME_NEW_ARGS):
        for key, fn in (('gte', lambda v, k: v >= k), ('gt', lambda v, k: v > k), ('lte', lambda v, k: v <= k), ('lt', lambda v, k: v < k)):
            if arg.get(key) is not None:
                cons.append(fn(var, int(arg[key])))
    return cons


def lemma_carry():
    import z3
    from .. import symint as SI
    bad = validate_calendar_model()
    if bad:
        return {'state': 'error', 'error': f'calendar model disagrees with the C library: {bad[:3]}'}
    snaps = []

    def hook(interp, st, fr, guard):
        snaps.append(dict(fr.env))
    ins, ret, fr, interp = _symbolic_run(hook)
    if not snaps:
        return {'state': 'skipped', 'why': 'no day-adjust loop found (structure changed)'}
    env = snaps[0]
    y0, mo0, d0, h0, mi0, s0, ms0 = ins
    y, mo, d, h, mi, s, ms = [SI.lift(env[n]) for n in ('year', 'month', 'day', 'hour', 'minute', 'second', 'millisecond')]
    c1 = ms0 / 1000
    s1 = s0 + c1
    c2 = s1 / 60
    m1 = mi0 + c2
    c3 = m1 / 60
    h1 = h0 + c3
    c4 = h1 / 24
    spec = z3.And(ms == ms0 % 1000, s == s1 % 60, mi == m1 % 60, h == h1 % 24, d == d0 + c4,
                  mo == (mo0 - 1) % 12 + 1, y == y0 + (mo0 - 1) / 12)
    sol = z3.Solver()
    sol.set('timeout', 300000)
    sol.add(z3.Not(spec))
    r = str(sol.check())
    if r == 'unsat':
        return {'state': 'unsat', 'lemma': 'carry chain == floor-division normal form for all integers (0<=ms<1000, 0<=s,min<60, 0<=h<24, 1<=month<=12)'}
    if r != 'sat':
        return {'state': 'inconclusive', 'why': r}
    m = sol.model()
    vals = [m.eval(v, True).as_long() for v in ins]
    ok, info = replay_datetime_new(vals)
    if ok:
        return {'state': 'inconclusive', 'why': f'carry-chain model {vals} does not fail on the real function'}
    return {'state': 'violation', 'detail': info, 'replay': {'module': 'vf.props.c16', 'fn': 'replay_datetime_new', 'kwargs': {'vals': vals}}}


def expected_datetime(vals):
    """proleptic Gregorian arithmetic with Python ints (ordinal arithmetic), independent of the implementation"""
    y, mo, d, h, mi, s, ms = vals
    total_ms = ms + 1000 * (s + 60 * (mi + 60 * h))
    days, rem = divmod(total_ms, 86400000)
    y += (mo - 1) // 12
    mo = (mo - 1) % 12 + 1
    n = py_dfc(y, mo, 1) + (d - 1) + days + datetime.date(1970, 1, 1).toordinal()
    if not (1 <= n <= datetime.date.max.toordinal()):
        return None
    date = datetime.date.fromordinal(n)
    return datetime.datetime(date.year, date.month, date.day) + datetime.timedelta(milliseconds=rem)


def replay_datetime_new(vals):
    from bare_script.library import SCRIPT_FUNCTIONS
    from bare_script import evaluate_expression
    want = expected_datetime(vals)
    expr = {'function': {'name': 'datetimeNew', 'args': [{'number': v} for v in vals]}}
    got = evaluate_expression(expr, {'globals': {'datetimeNew': SCRIPT_FUNCTIONS['datetimeNew']}}, None, False)
    info = {'args': vals, 'got': repr(got), 'expected': repr(want)}
    if want is None:
        return True, info
    if got != want:
        info['clause'] = 'datetimeNew must normalise components as proleptic-Gregorian arithmetic does'
        return False, info
    parts = dict(Year=want.year, Month=want.month, Day=want.day, Hour=want.hour, Minute=want.minute, Second=want.second,
                 Millisecond=want.microsecond // 1000)
    for name, val in parts.items():
        r = SCRIPT_FUNCTIONS['datetime' + name]([got], None)
        if r != val:
            info.update(clause=f'datetime{name} must return the part of the normalised instant', getter=repr(r), part=val)
            return False, info
    return True, info


def lemma_loops():
    """inductive step of each day-adjust loop from an arbitrary state satisfying the invariant"""
    import z3
    import bare_script.library as L
    from .. import symint as SI
    tree = SI.SymInt().function_ast(L._datetime_new)
    loops = [n for n in ast.walk(tree) if isinstance(n, ast.While)]
    if len(loops) != 2:
        return {'state': 'skipped', 'why': f'{len(loops)} loops found, expected the two day-adjust loops (structure changed)'}
    notes = []
    for k, loop in enumerate(loops):
        year, month, day, md = z3.Int('year'), z3.Int('month'), z3.Int('day'), z3.Int('month_days')
        calls = {'calendar.monthrange': lambda y, m: (0, z3_mdays(SI.lift(y), SI.lift(m)))}
        interp = SI.SymInt(L, calls)
        fr = SI.Frame({'year': year, 'month': month, 'day': day, 'month_days': md})
        test = interp.truth(interp.expr(loop.test, fr))
        interp.block(loop.body, fr, z3.BoolVal(True))
        y2, m2, d2, md2 = [SI.lift(fr.env[n]) for n in ('year', 'month', 'day', 'month_days')]
        uses_md = 'month_days' in [n.id for n in ast.walk(loop.test) if isinstance(n, ast.Name)]
        inv = z3.And(month >= 1, month <= 12, year >= 1, year <= 9999)
        if uses_md:
            inv = z3.And(inv, md == z3_mdays(year, month))
        key = lambda y, m, d: z3_dfc(y, m, z3.IntVal(1)) + d
        post = [('day number preserved', key(y2, m2, d2) == key(year, month, day)), ('month stays in 1..12', z3.And(m2 >= 1, m2 <= 12))]
        if uses_md:
            post.append(('month_days tracks the current month', md2 == z3_mdays(y2, m2)))
            post.append(('progress and day stays >= 1', z3.And(d2 < day, d2 >= 1)))
        else:
            post.append(('progress', d2 > day))
            post.append(('exit implies day <= month length', z3.Implies(d2 >= 1, d2 <= z3_mdays(y2, m2))))
        vac = z3.Solver()
        vac.add(inv, SI.lift(test))
        if str(vac.check()) != 'sat':
            return {'state': 'error', 'error': f'loop {k}: invariant and loop test are jointly unsatisfiable (vacuous lemma)'}
        for what, goal in post:
            sol = z3.Solver()
            sol.set('timeout', 300000)
            sol.add(inv, SI.lift(test), z3.Not(goal))
            r = str(sol.check())
            if r == 'sat':
                m = sol.model()
                st = {n: m.eval(v, True).as_long() for n, v in (('year', year), ('month', month), ('day', day))}
                # replay through the public function: day values that drive the loop from this month
                for vals in ([st['year'], st['month'], st['day'], 0, 0, 0, 0], [st['year'], st['month'], st['day'] + 31, 0, 0, 0, 0],
                             [st['year'], st['month'], st['day'] - 31, 0, 0, 0, 0]):
                    if vals[0] >= 100 and abs(vals[2]) <= 10000:
                        ok, info = replay_datetime_new(vals)
                        if not ok:
                            info['loop'] = k
                            info['obligation'] = what
                            return {'state': 'violation', 'detail': info,
                                    'replay': {'module': 'vf.props.c16', 'fn': 'replay_datetime_new', 'kwargs': {'vals': vals}}}
                return {'state': 'inconclusive', 'why': f'loop {k}: "{what}" has a model {st} that does not fail through datetimeNew'}
            if r != 'unsat':
                return {'state': 'inconclusive', 'why': f'loop {k}: {what}: {r}'}
            notes.append(f'loop {k}: {what}: unsat')
    return {'state': 'unsat', 'lemma': 'both day-adjust loops: one inductive step from an arbitrary state (years 1..9999) preserves the day number', 'notes': notes}


def lemma_unique():
    import z3
    y1, m1, d1, y2, m2, d2 = z3.Ints('y1 m1 d1 y2 m2 d2')
    sol = z3.Solver()
    sol.set('timeout', 300000)
    rng = lambda y, m, d: z3.And(y >= 1, y <= 9999, m >= 1, m <= 12, d >= 1, d <= z3_mdays(y, m))
    sol.add(rng(y1, m1, d1), rng(y2, m2, d2), z3_dfc(y1, m1, d1) == z3_dfc(y2, m2, d2), z3.Or(y1 != y2, m1 != m2, d1 != d2))
    r = str(sol.check())
    if r == 'unsat':
        return {'state': 'unsat', 'lemma': 'the day number determines (year, month, day) within the valid ranges (years 1..9999)'}
    return {'state': 'inconclusive', 'why': f'uniqueness of the civil representation: {r}'}


def tz_roundtrip_native():
    """By-product (concrete): ISO format -> parse under the listed TZ values on a pool of instants incl. DST edges (whole-minute offsets)."""
    import subprocess
    import sys
    code = r'''
import datetime, os, sys, time
os.environ['TZ'] = sys.argv[1]; time.tzset()
from bare_script.library import SCRIPT_FUNCTIONS as F
bad = []
for y, mo, d, h, mi, s, ms in [(2024,1,15,12,0,0,0),(2024,7,15,12,30,15,123),(2024,3,10,1,59,59,999),(2024,3,10,3,0,0,0),(2024,11,3,0,30,0,1),
                               (2024,11,3,2,30,0,0),(2024,3,31,0,30,0,0),(2024,10,27,3,30,0,5),(1999,12,31,23,59,59,999),(2038,1,19,3,14,8,0),
                               (1970,1,2,0,0,0,0),(2024,4,7,3,0,0,0),(2024,10,6,1,45,0,0),(2021,2,28,23,0,0,500),
                               (5000,6,15,12,34,55,349),(2500,1,1,0,0,1,1),(1995,7,4,8,9,10,777),(9000,12,30,23,59,59,999)]:
    dt = F['datetimeNew']([y, mo, d, h, mi, s, ms], None)
    text = F['datetimeISOFormat']([dt], None)
    back = F['datetimeISOParse']([text], None)
    # a wall-clock time that does not exist or is ambiguous in the zone is outside the claim ("every datetime that exists")
    exists = dt.astimezone().astimezone(datetime.timezone.utc).astimezone().replace(tzinfo=None) == dt      # integer arithmetic only (no float timestamps)
    if exists and back != dt:
        bad.append((repr(dt), text, repr(back)))
from bare_script import parse_expression, evaluate_expression
SUB = parse_expression('(dd + nn) - dd')
for y, mo, d, h in [(2024,3,9,12),(2024,11,2,12),(2024,3,30,12),(2024,10,26,12),(2024,4,6,12),(2024,10,5,12),(2024,9,28,12),(2024,1,1,0)]:
    dt = F['datetimeNew']([y, mo, d, h, 30, 0, 0], None)
    for n in (86400000, 172800000, -86400000, 3600000 * 30, 1, 1001, -3600001, 10**12):
        r = evaluate_expression(SUB, {'globals': {'dd': dt, 'nn': n}})
        if r != n:
            bad.append(('add then subtract', repr(dt), n, repr(r)))
for t in ['2024-02-30', '2024-13-01', '2024-02-30T10:00:00Z', '2024-01-01T25:00:00Z', 'x', '2024-1-1', '2024-01-01T10:00:00+0100', '']:
    try:
        r = F['datetimeISOParse']([t], None)
    except Exception as exc:
        bad.append(('parse raised', t, repr(exc)))
        continue
    if r is not None:
        bad.append(('not null', t, repr(r)))
print(repr(bad))
'''
    out = {}
    for tz in ['UTC', 'America/New_York', 'Europe/London', 'Asia/Kolkata', 'Asia/Kathmandu', 'Australia/Lord_Howe', 'Pacific/Chatham', 'Etc/GMT+12']:
        p = subprocess.run([sys.executable, '-c', code, tz], capture_output=True, text=True, timeout=120)
        res = p.stdout.strip().splitlines()[-1] if p.stdout.strip() else 'ERR ' + p.stderr[-200:]
        if res != '[]':
            out[tz] = res[:400]
    if out:
        return {'state': 'violation', 'detail': {'clause': 'ISO format/parse round trip or invalid text handling', 'by_tz': out},
                'replay': {'module': 'vf.props.c16', 'fn': 'replay_tz', 'kwargs': {}}}
    return {'state': 'ok', 'checked': 8 * 22}


def replay_tz():
    r = tz_roundtrip_native()
    return r['state'] == 'ok', r.get('detail', {})


CORE = '''
import datetime
from vf.props.c16 import expected_datetime, replay_datetime_new
from bare_script import parse_expression, evaluate_expression
from bare_script.library import SCRIPT_FUNCTIONS

BASE = {base!r}
POS = {pos}
LO, HI = {lo}, {hi}
YEARS = [1999, 2000, 2001, 2100, 2400, 1900, 2023, 2024]
NS = [0, 1, -1, 999, 1000, 1001, 1003, 1023, -1001, 2002, 2030, 59999, 60001, 86400000, 86400001, -86399999, 1234567891, 10 ** 12, -(10 ** 12),
      10 ** 12 - 1, 31536000123, 3600001, 7, 1999, 2999]
SUB = parse_expression('(dd + nn) - dd')


def core_new(v, yi):
    vals = list(BASE)
    for j in range(len(YEARS)):
        if yi == j:
            vals[0] = YEARS[j]
    for j in range(LO, HI + 1):
        if v == j:
            vals[POS] = j
    return replay_datetime_new(vals)


def core_addsub(k, yi):
    n = NS[0]
    for j in range(len(NS)):
        if k == j:
            n = NS[j]
    y = YEARS[0]
    for j in range(len(YEARS)):
        if yi == j:
            y = YEARS[j]
    d = datetime.datetime(y, 3, 10, 1, 30, 15, 123000)
    r = evaluate_expression(SUB, {{'globals': {{'dd': d, 'nn': n}}}}, None, False)
    if r != n:
        return False, {{'clause': '(d + n ms) - d must be n', 'd': repr(d), 'n': n, 'result': repr(r)}}
    return True, {{}}
'''
E1_LAYOUTS = [  # (base components, symbolic position, lo, hi)
    ([2024, 2, 28, 0, 0, 0, 0], 2, -40, 75), ([2024, 2, 28, 0, 0, 0, 0], 1, -14, 26), ([2024, 12, 31, 0, 0, 0, 0], 3, -50, 50),
    ([2024, 2, 28, 23, 0, 0, 0], 4, -130, 130), ([2024, 12, 31, 23, 59, 0, 0], 5, -130, 130), ([2024, 2, 29, 23, 59, 59, 0], 6, -1, 1),
    ([2024, 1, 1, 0, 0, 0, 0], 2, -400, -300), ([2024, 3, 0, 0, 0, 0, 0], 2, 0, 35), ([2023, 14, 31, 24, 60, 60, 1000], 2, 25, 35),
]


def plan(tier, seed, workdir):
    import bare_script.library as L
    import bare_script.value as V
    import bare_script.runtime as rt
    p = Plan('C16', 'exploration')
    p.encode(L._datetime_new, V.value_round_number, V.value_parse_datetime, V.value_string, rt.evaluate_expression)
    for fn in ('lemma_carry', 'lemma_loops', 'lemma_unique', 'lemma_subtract_rounding', 'lemma_iso'):
        p.add({'kind': 'lemma', 'id': fn, 'module': 'vf.props.c16', 'fn': fn, 'kwargs': {}, 'timeout': 900, 'est': 60}, family='E2 ' + fn)
    p.add({'kind': 'native', 'id': 'tz_roundtrip_native', 'module': 'vf.props.c16', 'fn': 'tz_roundtrip_native', 'kwargs': {}, 'timeout': 600, 'est': 30},
          family='ISO round trip under 8 TZ values (concrete by-product; TZ cannot be a solver variable)')
    timeout = 150 if tier == 'quick' else 900
    for n, (base, pos, lo, hi) in enumerate(E1_LAYOUTS):
        body = CORE.format(base=base, pos=pos, lo=lo, hi=hi)
        body += hgen.harness('new', 'v: int, yi: int', [f'{lo} <= v <= {hi}', '0 <= yi < 8' if tier == 'thorough' else '0 <= yi < 3'],
                             core_call='core_new(v, yi)')
        path = hgen.write_module(workdir, f'c16_new{n}', body)
        hgen.ch_tasks(p, path, 'new', timeout, est=60, family='E1 datetimeNew + getters vs ordinal arithmetic', base=base, position=pos, range=[lo, hi],
                      enum={'v': list(range(lo, hi + 1)), 'yi': list(range(8))})
    body = CORE.format(base=[2024, 1, 1, 0, 0, 0, 0], pos=2, lo=0, hi=0)
    body += hgen.harness('addsub', 'k: int, yi: int', ['0 <= k < 25', '0 <= yi < 8'], core_call='core_addsub(k, yi)')
    path = hgen.write_module(workdir, 'c16_addsub', body)
    hgen.ch_tasks(p, path, 'addsub', timeout, est=60, family='E1 (d + n ms) - d == n', enum={'k': list(range(25)), 'yi': list(range(8))})
    p.rule = ('5 z3 lemmas: on the real AST of datetimeNew (carry chain for all integers; inductive step of each day loop; uniqueness of the '
              'civil representation), the rounding of datetime subtraction (relative-error model from the AST) and the ISO text regexes; CrossHair conditions with one symbolic component each + add/subtract over a solver-indexed pool')
    p.bounds = ['E2: all integers for the carry chain; loops: arbitrary state with 1<=month<=12, years 1..9999',
                'E1: one component symbolic per condition over the stated range, year from a small pool incl. 1900/2000/2100/2400',
                'millisecond offsets from a 25-element pool up to +-1e12']
    p.stubs = ['calendar.monthrange axiomatised by the Gregorian rule (validated against the C library every run)', 'ValueArgsError message formatting']
    p.outside = ['time-zone behaviour for arbitrary zones (astimezone/mktime consult the C tz database); 8 zones replayed concretely as a by-product',
                 'datetime subtraction beyond |n| <= 2^40 ms and non-integral differences (the rounding lemma covers integral ms differences)', 'years outside 1..9999']
    p.assumptions = ['z3 linear integer arithmetic with constant divisors', 'vf.symint models of Python int arithmetic', 'CPython datetime']
    p.samples = [{'lemma': 'carry', 'statement': 'forall ints: (ms, s, min, h, day, month, year) after the carry chain == floor-div normal form'},
                 {'layout': E1_LAYOUTS[0]}]
    return p


# ---------------------------------------------------------------------------------------------------------------------
# floating-point lemma for datetime subtraction, generated from the real AST (relative-error rounding model)

class _FP:
    """float expression -> z3 Real with one fresh relative error |d| <= 2^-53 per inexact operation (sound over-approximation of
    IEEE-754 round-to-nearest for normal results); int() truncates toward zero; ints stay exact"""

    def __init__(self, env, module):
        import z3
        self.z3 = z3
        self.env = env
        self.module = module
        self.deltas = []
        self.depth = 0

    def delta(self):
        z3 = self.z3
        d = z3.Real(f'd{len(self.deltas)}')
        self.deltas.append(d)
        return d

    def rounded(self, x):
        return x * (1 + self.delta())

    def ev(self, node):
        z3 = self.z3
        if isinstance(node, ast.Constant):
            return ('int', z3.IntVal(node.value)) if isinstance(node.value, int) else ('flt', z3.RealVal(repr(node.value)))
        if isinstance(node, ast.Name):
            return self.env[node.id]
        if isinstance(node, ast.BinOp):
            (ka, a), (kb, b) = self.ev(node.left), self.ev(node.right)
            if isinstance(node.op, ast.Pow) and ka == 'int' and kb == 'int' and z3.is_int_value(a) and z3.is_int_value(b):
                return ('int', z3.IntVal(a.as_long() ** b.as_long()))
            if ka == 'int' and kb == 'int' and not isinstance(node.op, ast.Div):
                op = {ast.Add: lambda x, y: x + y, ast.Sub: lambda x, y: x - y, ast.Mult: lambda x, y: x * y}.get(type(node.op))
                if op is None:
                    raise ValueError('int operator')
                return ('int', op(a, b))
            ra = z3.ToReal(a) if ka == 'int' else a
            rb = z3.ToReal(b) if kb == 'int' else b
            if isinstance(node.op, ast.Mult):
                exact = (kb == 'int' and z3.is_int_value(b) and b.as_long() == 1) or (ka == 'int' and z3.is_int_value(a) and a.as_long() == 1)
                return ('flt', ra * rb if exact else self.rounded(ra * rb))
            if isinstance(node.op, ast.Div):
                exact = kb == 'int' and z3.is_int_value(b) and b.as_long() == 1
                return ('flt', ra / rb if exact else self.rounded(ra / rb))
            if isinstance(node.op, ast.Add):
                return ('flt', self.rounded(ra + rb))
            if isinstance(node.op, ast.Sub):
                return ('flt', self.rounded(ra - rb))
            raise ValueError('float operator')
        if isinstance(node, ast.UnaryOp) and isinstance(node.op, ast.USub):
            k, v = self.ev(node.operand)
            return (k, -v)
        if isinstance(node, ast.IfExp):
            c = self.cond(node.test)
            (ka, a), (kb, b) = self.ev(node.body), self.ev(node.orelse)
            ra = z3.ToReal(a) if ka == 'int' else a
            rb = z3.ToReal(b) if kb == 'int' else b
            return ('flt', z3.If(c, ra, rb))
        if isinstance(node, ast.Call):
            f = node.func
            if isinstance(f, ast.Name) and f.id == 'int':
                k, v = self.ev(node.args[0])
                if k == 'int':
                    return ('int', v)
                return ('int', z3.If(v >= 0, z3.ToInt(v), -z3.ToInt(-v)))
            if isinstance(f, ast.Attribute) and f.attr == 'total_seconds':
                # timedelta.total_seconds(): exact integer microseconds / 10**6 (one correctly rounded division)
                k, us = self.ev(f.value)
                if k != 'td':
                    raise ValueError('total_seconds of a non-timedelta')
                return ('flt', self.rounded(z3.ToReal(us) / 1000000))
            if isinstance(f, ast.Name):
                target = getattr(self.module, f.id, None)
                if target is None:
                    raise ValueError('call of ' + f.id)
                self.depth += 1
                if self.depth > 4:
                    raise ValueError('depth')
                import inspect
                import textwrap
                tree = ast.parse(textwrap.dedent(inspect.getsource(target))).body[0]
                params = [a.arg for a in tree.args.args]
                sub = _FP(dict(zip(params, [self.ev(a) for a in node.args])), inspect.getmodule(target))
                sub.deltas = self.deltas
                sub.depth = self.depth
                val = None
                for st in tree.body:
                    if isinstance(st, ast.Expr) and isinstance(st.value, ast.Constant):
                        continue
                    if isinstance(st, ast.Assign) and isinstance(st.targets[0], ast.Name):
                        sub.env[st.targets[0].id] = sub.ev(st.value)
                    elif isinstance(st, ast.Return):
                        val = sub.ev(st.value)
                        break
                    else:
                        raise ValueError('statement in ' + f.id)
                self.depth -= 1
                return val
        if isinstance(node, ast.BinOp) or True:
            raise ValueError(f'unsupported float expression node {type(node).__name__}')

    def cond(self, node):
        z3 = self.z3
        if isinstance(node, ast.Compare) and len(node.ops) == 1:
            (ka, a), (kb, b) = self.ev(node.left), self.ev(node.comparators[0])
            ra = z3.ToReal(a) if ka == 'int' else a
            rb = z3.ToReal(b) if kb == 'int' else b
            return {ast.GtE: ra >= rb, ast.Gt: ra > rb, ast.LtE: ra <= rb, ast.Lt: ra < rb}[type(node.ops[0])]
        raise ValueError('condition')


def replay_subtract(n):
    """(d + n ms) - d on the real evaluator, n and a window of neighbours"""
    from bare_script import parse_expression, evaluate_expression
    expr = parse_expression('(dd + nn) - dd')
    d = datetime.datetime(2024, 3, 10, 1, 30, 15, 123000)
    lo = max(-10 ** 12, n - 3000)
    for k in range(lo, lo + 6001):
        r = evaluate_expression(expr, {'globals': {'dd': d, 'nn': k}})
        if r != k:
            return False, {'clause': '(d + n ms) - d must be n', 'n': k, 'result': repr(r), 'solver_candidate': n}
    return True, {}


def lemma_subtract_rounding():
    import inspect
    import textwrap
    import z3
    import bare_script.runtime as rt
    import bare_script.value as V
    tree = ast.parse(textwrap.dedent(inspect.getsource(rt.evaluate_expression)))
    rets = [n for n in ast.walk(tree) if isinstance(n, ast.Return) and n.value is not None and 'total_seconds' in ast.dump(n.value)]
    if len(rets) != 1:
        return {'state': 'skipped', 'why': f'{len(rets)} return statements use total_seconds() (structure changed)'}
    n = z3.Int('n')
    fp = _FP({'left_dt': ('dt', None), 'right_dt': ('dt', None)}, rt)
    # (left_dt - right_dt) is a timedelta of exactly 1000*n microseconds for datetimes that are n ms apart
    orig_ev = fp.ev

    def ev(node):
        if isinstance(node, ast.BinOp) and isinstance(node.op, ast.Sub) and isinstance(node.left, ast.Name) and node.left.id == 'left_dt':
            return ('td', n * 1000)
        return orig_ev(node)
    fp.ev = ev
    try:
        kind, val = fp.ev(rets[0].value)
    except ValueError as exc:
        return {'state': 'skipped', 'why': f'subtraction kernel outside the float-expression subset: {exc}'}
    res = z3.ToReal(val) if kind == 'int' else val
    bound = 2 ** 40
    sol = z3.Solver()
    sol.set('timeout', 300000)
    sol.add(n >= -bound, n <= bound)
    u = z3.RealVal(1) / z3.RealVal(2 ** 53)
    for d in fp.deltas:
        sol.add(d >= -u, d <= u)
    sol.add(res != z3.ToReal(n))
    r = str(sol.check())
    if r == 'unsat':
        return {'state': 'unsat', 'lemma': f'datetime subtraction returns exactly n for every integral difference |n| <= 2^40 ms under the '
                                           f'relative-error rounding model ({len(fp.deltas)} rounded operations found in the AST)'}
    if r != 'sat':
        return {'state': 'inconclusive', 'why': r}
    nv = sol.model().eval(n, True).as_long()
    ok, info = replay_subtract(nv)
    if ok:
        return {'state': 'inconclusive', 'why': f'rounding-model candidate n={nv} (and 6000 neighbours) subtracts exactly on the real evaluator'}
    return {'state': 'violation', 'detail': info, 'replay': {'module': 'vf.props.c16', 'fn': 'replay_subtract', 'kwargs': {'n': nv}}}


def lemma_iso():
    """regular-language facts about the ISO text path (value_string for datetimes -> value_parse_datetime), on the live regexes:
    over the grammar of datetime.isoformat() for aware datetimes with whole-minute offsets (validated against the C function),
    (1) the microsecond pattern fires exactly when a fraction is present, (2) the offset clean-up never fires on a whole-minute
    offset and fires on an offset with seconds, (3) every formatted text (fraction cut to 3 digits) is fully matched by the live
    datetime pattern, so format -> parse can never yield null for such datetimes."""
    import random
    import z3
    import bare_script.value as V
    from .. import rx2z3 as R
    try:
        micro, tzc, dtp = R.Rx(V._R_DATETIME_MICROSECOND, ascii_only=True), R.Rx(V._R_DATETIME_TZ_CLEANUP, ascii_only=True), R.Rx(V._R_DATETIME, ascii_only=True)
    except R.Unsupported as exc:
        return {'state': 'skipped', 'why': str(exc)}
    d = R.re_range(0x30, 0x39)
    lit = lambda s: z3.Re(z3.StringVal(s))
    dd = z3.Concat(d, d)
    date = z3.Concat(dd, dd, lit('-'), dd, lit('-'), dd)
    time_ = z3.Concat(dd, lit(':'), dd, lit(':'), dd)
    sign = R.union([lit('+'), lit('-')])
    off = z3.Concat(sign, dd, lit(':'), dd)
    frac6 = z3.Concat(lit('.'), z3.Loop(d, 6, 6))
    frac3 = z3.Concat(lit('.'), z3.Loop(d, 3, 3))
    G = z3.Concat(date, lit('T'), time_, z3.Option(frac6), off)
    Gsec = z3.Concat(date, lit('T'), time_, z3.Option(frac6), off, lit(':'), dd)
    Gout = z3.Concat(date, lit('T'), time_, z3.Option(frac3), off)
    # grammar validation against the C function
    rng = random.Random(0)
    for _ in range(200):
        tz = datetime.timezone(datetime.timedelta(minutes=rng.randrange(-14 * 60, 14 * 60)))
        t = datetime.datetime(rng.randrange(1000, 9999), rng.randrange(1, 13), rng.randrange(1, 29), rng.randrange(24), rng.randrange(60),
                              rng.randrange(60), rng.choice([0, rng.randrange(1000000)]), tzinfo=tz).isoformat()
        s = z3.Solver()
        s.add(z3.InRe(R.strval(t), G))
        if str(s.check()) != 'sat':
            return {'state': 'error', 'error': f'isoformat output {t!r} outside the modelled grammar'}
    T = z3.String('T')
    notes = []
    obligations = [
        ('microsecond pattern fires without a fraction', [z3.InRe(T, z3.Concat(date, lit('T'), time_, off)), z3.InRe(T, micro.lang_search())]),
        ('microsecond pattern misses a fraction', [z3.InRe(T, z3.Concat(date, lit('T'), time_, frac6, off)), z3.Not(z3.InRe(T, micro.lang_search()))]),
        ('offset clean-up fires on a whole-minute offset', [z3.InRe(T, R.union([G, Gout])), z3.InRe(T, tzc.lang_search())]),
        ('offset clean-up misses an offset with seconds', [z3.InRe(T, Gsec), z3.Not(z3.InRe(T, tzc.lang_search()))]),
        ('formatted text is not matched by the datetime pattern', [z3.InRe(T, Gout), z3.Not(z3.InRe(T, dtp.lang_fullline()))]),
    ]
    for what, cons in obligations:
        sol = z3.Solver()
        sol.set('timeout', 120000)
        sol.add(*cons)
        r = str(sol.check())
        if r == 'sat':
            text = R.py_str(R.model_str(sol.model(), T))
            ok, info = replay_iso_text(text)
            if not ok:
                info['obligation'] = what
                return {'state': 'violation', 'detail': info, 'replay': {'module': 'vf.props.c16', 'fn': 'replay_iso_text', 'kwargs': {'text': text}}}
            return {'state': 'inconclusive', 'why': f'{what}: regex-level witness {text!r} round-trips on the real functions'}
        if r != 'unsat':
            return {'state': 'inconclusive', 'why': f'{what}: {r}'}
        notes.append(what + ': unsat')
    return {'state': 'unsat', 'lemma': 'ISO formatting regexes fire exactly where intended and every formatted text is within the live datetime pattern', 'notes': notes}


def replay_iso_text(text):
    """take the instant a solver-built ISO text denotes, push it through the real format -> parse"""
    from bare_script.value import value_string, value_parse_datetime
    try:
        base = text[:19]
        d = datetime.datetime.fromisoformat(base)
        frac = text[19:].split('+')[0].split('-')[0]
        if frac.startswith('.'):
            d = d.replace(microsecond=int((frac[1:] + '000000')[:6]) // 1000 * 1000)
    except ValueError:
        return True, {}
    out = value_string(d)
    back = value_parse_datetime(out)
    if back != d:
        return False, {'clause': 'datetimeISOParse(datetimeISOFormat(d)) != d', 'd': repr(d), 'text': out, 'back': repr(back)}
    return True, {}
