"""
C17 includes resolve relative to the including file and run in global scope.

Per include-tree program (virtual file system) one CrossHair condition: the real interpreter (fetchFn/urlFn/systemPrefix as
the CLI sets them up) is run against the reference machine vf/hlib/refvm.py whose include handling uses an independently
written resolver.  Symbolic: the kind of base (URL / relative path / absolute path), the system prefix kind, and per file a
state (present / missing / fetch throws / syntactically broken).  Compared: the sequence of URLs passed to fetchFn, the effect
trace, the final globals, the exception type and message.  A separate condition runs url_file_relative itself on symbolic
strings against the resolver specification.
"""
import posixpath
import re

from ..engine import Plan
from .. import hgen


def spec_resolve(base, ref):
    """where an include reference points, written from the documentation (no normalisation of .. segments)"""
    if re.match(r'^[a-z]+:', ref):
        return ref                               # absolute URL
    if ref.startswith('/'):
        return ref                               # absolute path
    if re.match(r'^[a-z]+:', base):
        return base[:base.rfind('/') + 1] + ref  # URL base: replace the last path segment
    d = posixpath.dirname(base)
    return d + '/' + ref if d and not d.endswith('/') else d + ref


BASES = ['https://h.io/x/main.bare', 'dir/main.bare', '/abs/dir/main.bare', 'main.bare']
SYSPREFIX = ['https://s.io/inc/', 'sysdir/']

# program: main text + {relative location key: (text, includes resolved against the file itself)}; the virtual FS is built by
# resolving every reference with spec_resolve at harness time, so the real code must ask fetchFn for exactly those URLs
PROGRAMS = {
    'chain': {'main': "tt(1)\ninclude 'lib/one.bare'\ntt(2)\ninclude 'two.bare'\ntt(3)\n",
              'files': {'lib/one.bare': "tt(10)\ninclude 'sub/deep.bare'\ntt(11)\ninclude '../two.bare'\ntt(12)\n",
                        'lib/sub/deep.bare': "tt(20)\nxx = 5\nreturn\ntt(21)\n",
                        'lib/../two.bare': "tt(30)\n", 'two.bare': "tt(31)\nyy = xx\n"}},
    'adjacent': {'main': "tt(1)\ninclude 'lib/util.bare'\ninclude 'other.bare'\ninclude 'lib/util.bare'\ntt(2)\n",
                 'files': {'lib/util.bare': "tt(10)\ninclude 'helper.bare'\n", 'lib/helper.bare': "tt(11)\n", 'other.bare': "tt(20)\n"}},
    'in_function': {'main': "function ld(aa):\n    include 'lib/f.bare'\n    return aa\nendfunction\nzz = 1\nrr = ld(7)\ntt(rr)\ntt(zz)\n",
                    'files': {'lib/f.bare': "aa = 100\nzz = 2\ntt(aa)\ninclude 'g.bare'\n", 'lib/g.bare': "tt(50)\n"}},
    'system': {'main': "tt(1)\ninclude <sys.bare>\ninclude 'https://o.io/y/abs.bare'\ninclude '/root/r.bare'\ntt(2)\n",
               'files': {'<sys.bare>': "tt(10)\ninclude 'sysrel.bare'\ninclude <sys2.bare>\n", '<sysrel.bare>': "tt(11)\n", '<sys2.bare>': "tt(12)\n",
                         'https://o.io/y/abs.bare': "tt(20)\ninclude 'rel.bare'\n", 'https://o.io/y/rel.bare': "tt(21)\n",
                         '/root/r.bare': "tt(30)\ninclude 'q.bare'\n", '/root/q.bare': "tt(31)\n"}},
    'broken': {'main': "tt(1)\ninclude 'a.bare'\ntt(2)\ninclude 'b.bare'\ntt(3)\n",
               'files': {'a.bare': "tt(10)\ninclude 'c.bare'\ntt(11)\n", 'c.bare': "tt(20)\n", 'b.bare': "tt(30)\n"}},
}

CORE = '''
import functools
from bare_script import parse_script, execute_script
from bare_script.runtime import BareScriptRuntimeError
from bare_script.parser import BareScriptParserError
from bare_script.options import url_file_relative
from vf.hlib.refvm import RefVM
from vf.props.c17 import spec_resolve, BASES, SYSPREFIX
from vf.hlib.util import norm_error

MAIN = {main!r}
FILES = {files!r}
MODEL = parse_script(MAIN)
import copy
MODEL_BEFORE = copy.deepcopy(MODEL)
KEYS = sorted(FILES)


def _pick(seq, i):
    for j in range(len(seq)):
        if i == j:
            return seq[j]
    return seq[0]


def _fs(base, sysprefix, states):
    """virtual file system keyed by the URLs the specification resolves to; states: 0 present, 1 missing, 2 fetch throws, 3 broken text"""
    fs = {{}}
    for n, key in enumerate(KEYS):
        if key.startswith('<'):
            url = spec_resolve(sysprefix, key[1:-1])
        elif key.startswith('/') or key.startswith('https:'):
            url = key
        else:
            url = spec_resolve(base, key)
        fs[url] = (FILES[key], states[n] if n < len(states) else 0)
    return fs


def _run(real, base, sysprefix, states):
    fs = _fs(base, sysprefix, states)
    fetched, tr = [], []

    def fetch(req):
        url = req['url']
        fetched.append(url)
        if url not in fs:
            return None
        text, st = fs[url]
        if st == 1:
            return None
        if st == 2:
            raise IOError('boom')
        if st == 3:
            return text + 'if ((:' + chr(10)
        return text

    def tt(args, options):
        tr.append(args[0] if args else None)
    g = {{'tt': tt}}
    try:
        if real:
            opts = {{'globals': g, 'fetchFn': fetch, 'urlFn': functools.partial(url_file_relative, base), 'systemPrefix': sysprefix}}
            r = ('ok', execute_script(MODEL, opts))
        else:
            vm = RefVM(g, limit=0, fetch=fetch, system_prefix=sysprefix, url_fn=lambda u: spec_resolve(base, u),
                       resolve=lambda b: (lambda u: spec_resolve(b, u)))
            r = ('ok', vm.run(MODEL))
    except BareScriptRuntimeError as exc:
        r = ('runtime error', norm_error(exc))           # "Include of <resolved url>": the error must name the resolved location
    except BareScriptParserError as exc:
        first = str(exc).split(chr(10))[0]
        named = [u for u in fetched if u in first]
        r = ('parser error', exc.error, exc.line_number, named[-1:] )     # the message must name the file the error is in
    final = sorted((k, v) for k, v in g.items() if not callable(v))
    return r, fetched, tr, final


def core_tree(bi, si, states):
    base, sysprefix = _pick(BASES, bi), _pick(SYSPREFIX, si)
    real = _run(True, base, sysprefix, states)
    if MODEL != MODEL_BEFORE:
        return False, {{'clause': 'executing includes modified the model', 'base': base, 'system_prefix': sysprefix, 'model': repr(MODEL)[:300]}}
    again = _run(True, base, sysprefix, states)
    if again != real:
        return False, {{'clause': 'second execution of the same model differs', 'base': base, 'first': repr(real)[:300], 'second': repr(again)[:300]}}
    ref = _run(False, base, sysprefix, states)
    if real != ref:
        names = ['outcome', 'fetch sequence', 'effect trace', 'final globals']
        k = [i for i in range(4) if real[i] != ref[i]][0]
        return False, {{'clause': names[k] + ' differs from the include semantics', 'base': base, 'system_prefix': sysprefix, 'states': list(states),
                       'real': repr(real[k])[:400], 'expected': repr(ref[k])[:400], 'main': MAIN}}
    return True, {{}}
'''

CORE_REL = '''
from bare_script.options import url_file_relative
from vf.props.c17 import spec_resolve
REFS = ['lib.bare', 'sub/u.bare', '../up.bare', '/abs/z.bare', 'https://o.io/y.bare', 'x.y/z.bare', 'a:b.bare', 'A:b.bare', 'file.bare']
PBASES = ['dir/main.bare', 'main.bare', '/abs/dir/main.bare', 'a/b/c.bare', './m.bare']


def core_urlbase(d, f, r):
    base = 'https://h.io/' + d + '/' + f
    got = url_file_relative(base, r)
    want = spec_resolve(base, r)
    if got != want:
        return False, {{'clause': 'url_file_relative(URL base, reference)', 'base': base, 'ref': r, 'result': got, 'expected': want}}
    return True, {{}}


def core_pathbase(bi, ri):
    base = PBASES[0]
    for j in range(len(PBASES)):
        if bi == j:
            base = PBASES[j]
    ref = REFS[0]
    for j in range(len(REFS)):
        if ri == j:
            ref = REFS[j]
    got = url_file_relative(base, ref)
    want = spec_resolve(base, ref)
    if got != want:
        return False, {{'clause': 'url_file_relative(path base, reference)', 'base': base, 'ref': ref, 'result': got, 'expected': want}}
    return True, {{}}
'''


def plan(tier, seed, workdir):
    import bare_script.runtime as rt
    import bare_script.options as op
    import bare_script.parser as ps
    p = Plan('C17', 'exploration')
    p.encode(rt._execute_script_helper, op.url_file_relative, ps.parse_script)
    timeout = 200 if tier == 'quick' else 900
    for name, prog in PROGRAMS.items():
        nfiles = len(prog['files'])
        body = CORE.format(main=prog['main'], files=prog['files'])
        nstates = 1 if tier == 'quick' else 3
        pre = [f'0 <= bi < {len(BASES)}', f'0 <= si < {len(SYSPREFIX)}', f'len(states) == {nfiles}', 'all(0 <= s <= 3 for s in states)',
               f'sum(1 for s in states if s != 0) <= {nstates}']
        if name != 'system':
            pre.append('si == 0')
        body += hgen.harness('tree', 'bi: int, si: int, states: List[int]', pre, core_call='core_tree(bi, si, states)')
        path = hgen.write_module(workdir, f'c17_{name}', body, stub=False)
        hgen.ch_tasks(p, path, 'tree', timeout, twin_timeout=60, est=timeout / 2, family='include tree', program=name, main=prog['main'], files=sorted(prog['files']))
    body = CORE_REL
    body = body.replace('{{', '{').replace('}}', '}')
    body += hgen.harness('urlbase', 'd: str, f: str, r: str', ['len(d) <= 2', 'len(f) <= 2', 'len(r) <= 3', "chr(47) not in d", "chr(47) not in f", "not r.startswith(chr(47))"],
                         core_call='core_urlbase(d, f, r)')
    body += hgen.harness('pathbase', 'bi: int, ri: int', ['0 <= bi < 5', '0 <= ri < 9'], core_call='core_pathbase(bi, ri)')
    path = hgen.write_module(workdir, 'c17_rel', body, stub=False)
    hgen.ch_tasks(p, path, 'urlbase', timeout, family='url_file_relative on symbolic strings (URL base)')
    hgen.ch_tasks(p, path, 'pathbase', timeout, family='url_file_relative (path bases, pool)')
    p.rule = ('one CrossHair condition per include-tree program with symbolic base kind, system prefix kind and per-file state; '
              'one condition for url_file_relative on symbolic strings')
    p.bounds = ['5 programs: chain depth 3 with sub-directory, ../ and return inside an include; adjacent (merged) includes across directories; include '
                'inside a function; system / absolute URL / absolute path includes; missing, throwing and syntactically broken files',
                '4 base kinds (URL, relative path, absolute path, bare file name), 2 system prefixes, at most 1 (quick) / 3 (thorough) non-present files',
                'url_file_relative: symbolic strings len <= 2-3 for a URL base; path bases from a pool']
    p.stubs = ['virtual fetchFn over an in-memory file table', 'host function tt()']
    p.outside = ['OS-specific path normalisation beyond POSIX (pathlib normalises absolute references such as /. -> /)', 'real network/file fetchers', 'fan-out 3 / depth 4 random trees']
    p.assumptions = ['reference machine vf/hlib/refvm.py with the resolver specification vf/props/c17.py:spec_resolve', 'CrossHair/z3']
    p.samples = [{'program': 'chain', 'main': PROGRAMS['chain']['main'], 'files': sorted(PROGRAMS['chain']['files'])}]
    return p
