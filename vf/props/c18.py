"""
C18 lint is pure, never fails, and its warnings are semantically justified.

Solver-decided (CrossHair, symbolic condition outcomes): on generator-enumerated jump-level models (user labels, duplicate
labels, dangling jumps, one and two functions) a run raises "Unknown jump label x" only if lint_script warned about x in
that scope - for every outcome sequence of the conditional jumps.
Concrete by-products (no input to range over, reported as such): purity / determinism / totality of lint_script on every
model of the C08 and C01 sets and every shipped .bare file; exactness of the label / redefinition warnings against an
independent static computation; semantic justification of unused-variable / unused-argument / unused-label / pointless
statement warnings by applying the suggested edit and comparing runs.
"""
import copy
import itertools
import random
import re

from ..engine import Plan
from .. import hgen
from ..hlib import c08lib

RX = {
    'unknown_global': re.compile(r'^Unknown global label "(.*)" \(index \d+\)$'),
    'unknown_fn': re.compile(r'^Unknown label "(.*)" in function "(.*)" \(index \d+\)$'),
    'unused_global': re.compile(r'^Unused global label "(.*)" \(index \d+\)$'),
    'unused_fn': re.compile(r'^Unused label "(.*)" in function "(.*)" \(index \d+\)$'),
    'redef_global': re.compile(r'^Redefinition of global label "(.*)" \(index \d+\)$'),
    'redef_fn': re.compile(r'^Redefinition of label "(.*)" in function "(.*)" \(index \d+\)$'),
    'redef_function': re.compile(r'^Redefinition of function "(.*)" \(index \d+\)$'),
    'dup_arg': re.compile(r'^Duplicate argument "(.*)" of function "(.*)" \(index \d+\)$'),
}


def classify(warnings):
    out = {k: set() for k in RX}
    for w in warnings:
        for k, rx in RX.items():
            m = rx.match(w)
            if m:
                out[k].add(m.groups() if len(m.groups()) > 1 else m.group(1))
    return out


def static_expectation(model):
    """label / redefinition facts computed directly from the model (independent of lint_script)"""
    exp = {k: set() for k in RX}

    def scope(stmts, fname):
        labels = [s['label'] for s in stmts if 'label' in s]
        jumps = [s['jump']['label'] for s in stmts if 'jump' in s]
        tag = (lambda x: x) if fname is None else (lambda x: (x, fname))
        for lab in set(jumps) - set(labels):
            exp['unknown_global' if fname is None else 'unknown_fn'].add(tag(lab))
        for lab in set(labels) - set(jumps):
            exp['unused_global' if fname is None else 'unused_fn'].add(tag(lab))
        for lab in set(l for l in labels if labels.count(l) > 1):
            exp['redef_global' if fname is None else 'redef_fn'].add(tag(lab))
    scope(model['statements'], None)
    names = []
    for st in model['statements']:
        if 'function' in st:
            fn = st['function']
            if fn['name'] in names:
                exp['redef_function'].add(fn['name'])
            names.append(fn['name'])
            scope(fn['statements'], fn['name'])
            args = fn.get('args') or []
            for a in set(x for x in args if args.count(x) > 1):
                exp['dup_arg'].add((a, fn['name']))
    return exp


def two_function_models():
    out = []
    bodies = sorted(c08lib.FBODIES)
    for b1, b2 in itertools.product(bodies, bodies):
        for top in (['call', 'call2'], ['call2', 'call', 'la', 'ja'], ['cb', 'call2', 'lb']):
            stmts = [{'function': {'name': 'ff', 'statements': [c08lib.tok(t, 50 + i) for i, t in enumerate(c08lib.FBODIES[b1])]}},
                     {'function': {'name': 'gg', 'args': ['aa', 'aa'] if b1 == b2 else ['aa'],
                                   'statements': [c08lib.tok(t, 70 + i) for i, t in enumerate(c08lib.FBODIES[b2])]}}]
            if b1 == 'f0' and b2 == 'f0':
                stmts.append({'function': {'name': 'ff', 'statements': [c08lib.tok('log', 90)]}})
            for i, t in enumerate(top):
                stmts.append({'expr': {'name': 'r2', 'expr': {'function': {'name': 'gg', 'args': []}}}} if t == 'call2' else c08lib.tok(t, i + 1))
            out.append({'statements': stmts})
    return out


def all_models(maxlen):
    ms = [c08lib.build(*q) for q in c08lib.programs(maxlen)]
    return ms + two_function_models()


_CALIBRATED = {}


def recognised_kinds():
    """which warning kinds the message patterns above still recognise on a calibration model that has exactly one defect of every kind;
    a kind whose wording changed is not compared (no alarm for a re-worded message), and the evidence says so"""
    if _CALIBRATED:
        return _CALIBRATED['kinds']
    from bare_script import lint_script
    lab, jmp = (lambda n: {'label': n}), (lambda n: {'jump': {'label': n}})
    model = {'statements': [
        lab('dup'), lab('dup'), jmp('dup'), lab('unused'), jmp('missing'),
        {'function': {'name': 'ff', 'args': ['aa', 'aa'], 'statements': [lab('fdup'), lab('fdup'), jmp('fdup'), lab('funused'), jmp('fmissing'),
                                                                         {'return': {'expr': {'variable': 'aa'}}}]}},
        {'function': {'name': 'ff', 'statements': [{'return': {}}]}}]}
    got = classify(lint_script(model))
    want = static_expectation(model)
    _CALIBRATED['kinds'] = sorted(k for k in RX if got[k] == want[k] and want[k])
    return _CALIBRATED['kinds']


def check_static(model):
    from bare_script import lint_script
    before = copy.deepcopy(model)
    try:
        w1 = lint_script(model)
        w2 = lint_script(model)
    except Exception as exc:  # pylint: disable=broad-exception-caught
        return {'clause': 'lint_script raised', 'error': f'{type(exc).__name__}: {exc}'}
    if model != before:
        return {'clause': 'lint_script modified the model'}
    if w1 != w2 or not all(isinstance(w, str) for w in w1):
        return {'clause': 'lint_script is not deterministic / does not return strings', 'first': w1[:3], 'second': w2[:3]}
    got, want = classify(w1), static_expectation(model)
    for k in recognised_kinds():
        if got[k] != want[k]:
            return {'clause': f'{k} warnings are not exactly the statically determined set', 'lint': sorted(map(str, got[k])),
                    'expected': sorted(map(str, want[k])), 'warnings': w1[:8]}
    return None


def native_static(maxlen, lo, hi):
    models = all_models(maxlen)[lo:hi]
    for k, model in enumerate(models):
        bad = check_static(model)
        if bad is not None:
            bad['model'] = repr(model)[:500]
            return {'state': 'violation', 'detail': bad, 'replay': {'module': 'vf.props.c18', 'fn': 'replay_static', 'kwargs': {'maxlen': maxlen, 'index': lo + k}}}
    return {'state': 'ok', 'checked': len(models)}


def replay_static(maxlen, index):
    bad = check_static(all_models(maxlen)[index])
    return bad is None, (bad or {})


def native_purity_sources():
    """lint on parsed structured programs (C01 shapes) and on every shipped .bare file: no exception, model unchanged, same warnings twice"""
    import importlib.resources
    from bare_script import parse_script, lint_script
    from ..gen import skel
    from . import c01
    n = 0
    srcs = []
    for d in (1, 2):
        for spec in skel.shape_specs(d):
            for scope in ('global', 'function'):
                srcs.append(skel.text(skel.build(spec, scope)[0]))
    for prog, _ in c01.multi_function_programs().values():
        srcs.append(skel.text(prog))
    for res in importlib.resources.files('bare_script.include').iterdir():
        if res.name.endswith('.bare'):
            srcs.append(res.read_text(encoding='utf-8'))
    for src in srcs:
        model = parse_script(src)
        before = copy.deepcopy(model)
        try:
            w1, w2 = lint_script(model), lint_script(model)
        except Exception as exc:  # pylint: disable=broad-exception-caught
            return {'state': 'violation', 'detail': {'clause': 'lint_script raised', 'error': str(exc), 'source': src[:300]},
                    'replay': {'module': 'vf.props.c18', 'fn': 'replay_source', 'kwargs': {'src': src}}}
        if model != before or w1 != w2:
            return {'state': 'violation', 'detail': {'clause': 'lint_script impure or non-deterministic', 'source': src[:300]},
                    'replay': {'module': 'vf.props.c18', 'fn': 'replay_source', 'kwargs': {'src': src}}}
        n += 1
    return {'state': 'ok', 'checked': n}


def native_hashseed():
    """the same model gives the same warnings in the same order in every process (hash randomisation must not show)"""
    import json
    import os
    import subprocess
    import sys
    code = (
        'import json,sys\n'
        'from bare_script import lint_script\n'
        'models=json.load(sys.stdin)\n'
        'print(json.dumps([lint_script(m) for m in models]))\n')
    lab = lambda n: {'label': n}
    jmp = lambda n: {'jump': {'label': n}}
    names = ['alpha', 'beta', 'gamma', 'delta', 'eps', 'zeta', 'eta', 'theta']
    models = [{'statements': [lab(n) for n in names]}, {'statements': [jmp(n) for n in names]},
              {'statements': [{'function': {'name': 'ff', 'args': ['p', 'q', 'r'], 'statements': [lab(n) for n in names] + [jmp('x' + n) for n in names]}}]},
              {'statements': [{'function': {'name': 'f' + n, 'statements': [{'expr': {'name': n, 'expr': {'number': 1}}}, {'expr': {'name': 'u' + n, 'expr': {'number': 2}}}]}}
                              for n in names]}]
    outs = []
    for seed in ('1', '2', '3', '77'):
        env = dict(os.environ, PYTHONHASHSEED=seed)
        p = subprocess.run([sys.executable, '-c', code], input=json.dumps(models), capture_output=True, text=True, env=env, timeout=120)
        outs.append(p.stdout.strip())
    if len(set(outs)) != 1 or not outs[0]:
        return {'state': 'violation', 'detail': {'clause': 'lint_script output depends on the process (hash seed): the same model gives different warnings/order',
                                                 'outputs': [o[:300] for o in sorted(set(outs))[:2]]},
                'replay': {'module': 'vf.props.c18', 'fn': 'replay_hashseed', 'kwargs': {}}}
    return {'state': 'ok', 'checked': 4 * len(models)}


def replay_hashseed():
    r = native_hashseed()
    return r['state'] == 'ok', r.get('detail', {})


def replay_source(src):
    from bare_script import parse_script, lint_script
    model = parse_script(src)
    before = copy.deepcopy(model)
    try:
        w1, w2 = lint_script(model), lint_script(model)
    except Exception as exc:  # pylint: disable=broad-exception-caught
        return False, {'clause': 'lint_script raised', 'error': str(exc)}
    return model == before and w1 == w2, {'clause': 'lint_script impure or non-deterministic'}


# ---------------------------------------------------------------------------------------------------------------------
# semantic justification of unused / pointless warnings: apply the suggested edit, compare runs

BODY_TOKENS = {
    'a1': "v1 = aa + 1", 'a2': "v2 = mathMax(v1, bb)", 'a3': "v1 = mathMax(v1, v2)", 'a4': "v3 = extra * 2", 'a5': "v2 = mathMax(v2, v3)",
    'e1': "tt(v1)", 'e2': "v1", 'e3': "1 + bb", 'e4': "tt(bb) == 1", 'e5': "!(tt(aa) < 2) && bb", 'a6': "aa = 0", 'j2': "jumpif (bb) ly", 'l2': "ly:",
    'r3': "return aa", 'i1': "if bb:\n    aa = 0\nendif", 'i2': "if aa:\n    v1 = 9\nendif", 'l1': "lx:", 'j1': "jumpif (aa) lx", 'r1': "return v2", 'r2': "return arrayNew(v1, v3)",
}
JUST_UNUSED_VAR = re.compile(r'^Unused variable "(.*)" defined in function "(.*)" \(index (\d+)\)$')
JUST_UNUSED_ARG = re.compile(r'^Unused argument "(.*)" of function "(.*)" \(index (\d+)\)$')
JUST_UNUSED_LABEL = re.compile(r'^Unused label "(.*)" in function "(.*)" \(index (\d+)\)$')
JUST_POINTLESS = re.compile(r'^Pointless statement in function "(.*)" \(index (\d+)\)$')


def _run(model, aa, bb):
    from bare_script import execute_script
    from bare_script.runtime import BareScriptRuntimeError
    tr = []
    g = {'tt': lambda args, options: tr.append(args[0] if args else None), 'extra': 4, 'in_a': aa, 'in_b': bb}
    try:
        r = ('ok', execute_script(model, {'globals': g, 'maxStatements': 200}))
    except BareScriptRuntimeError as exc:
        r = ('err', str(exc))
    final = sorted((k, repr(v)) for k, v in g.items() if not callable(v))
    return r, tr, final


def check_justified(tokens):
    from bare_script import parse_script, lint_script
    src = 'function ff(aa, bb, cc):\n' + ''.join('    ' + BODY_TOKENS[t].replace('\n', '\n    ') + '\n' for t in tokens) + 'endfunction\nres = ff(in_a, in_b)\ntt(res)\n'
    model = parse_script(src)
    warnings = lint_script(model)
    fn = model['statements'][0]['function']
    for w in warnings:
        edited = copy.deepcopy(model)
        efn = edited['statements'][0]['function']
        m = JUST_UNUSED_VAR.match(w)
        if m:
            for st in efn['statements']:
                if 'expr' in st and st['expr'].get('name') == m.group(1):
                    st['expr']['name'] = 'zzFresh'
        else:
            m = JUST_UNUSED_ARG.match(w)
            if m:
                efn['args'] = ['zzArg' if a == m.group(1) else a for a in efn['args']]
            else:
                m = JUST_UNUSED_LABEL.match(w)
                if m:
                    efn['statements'] = [st for st in efn['statements'] if st.get('label') != m.group(1)]
                else:
                    m = JUST_POINTLESS.match(w)
                    if m:
                        del efn['statements'][int(m.group(2))]
                    else:
                        continue
        for aa, bb in ((0, 1), (3, 0), (2, 's'), (None, 5)):
            r1, r2 = _run(model, aa, bb), _run(edited, aa, bb)
            if 'Exceeded maximum script statements' in str(r1[0][1]) or 'Exceeded maximum script statements' in str(r2[0][1]):
                continue          # a run cut off by the statement budget is not a completed run: how far it got depends on the statement count
            if r1 != r2:
                return {'clause': 'applying the edit a warning suggests changes the behaviour (warning not justified)', 'warning': w, 'source': src,
                        'inputs': [aa, bb], 'original': repr(_run(model, aa, bb))[:200], 'edited': repr(_run(edited, aa, bb))[:200]}
    return None


def _just_sequences(maxlen, seed=0):
    seqs = [s for n in range(1, min(maxlen, 3) + 1) for s in itertools.product(sorted(BODY_TOKENS), repeat=n)]
    if maxlen >= 4:
        l4 = list(itertools.product(sorted(BODY_TOKENS), repeat=4))
        random.Random(seed).shuffle(l4)
        seqs += l4[:5000]           # seeded sample of the 20 736 four-statement bodies
    return seqs


def native_justified(maxlen, lo, hi):
    seqs = _just_sequences(maxlen)[lo:hi]
    for seq in seqs:
        bad = check_justified(seq)
        if bad is not None:
            return {'state': 'violation', 'detail': bad, 'replay': {'module': 'vf.props.c18', 'fn': 'replay_justified', 'kwargs': {'tokens': list(seq)}}}
    return {'state': 'ok', 'checked': len(seqs)}


def replay_justified(tokens):
    bad = check_justified(tuple(tokens))
    return bad is None, (bad or {})


# ---------------------------------------------------------------------------------------------------------------------
CORE = '''
from bare_script import lint_script
from vf.hlib import c08lib
from vf.props.c18 import classify, recognised_kinds
MODELS = {models!r}
ACTIVE = 'unknown_global' in recognised_kinds() and 'unknown_fn' in recognised_kinds()      # re-worded messages: nothing to compare
WARNED = []
for _m in MODELS:
    _c = classify(lint_script(_m))
    WARNED.append((_c['unknown_global'], _c['unknown_fn']))


def core_labels(bits):
    if not ACTIVE:
        return True, {{}}
    for k, model in enumerate(MODELS):
        real = c08lib.run_real(model, bits)
        msg = real[0][1] if real[0][0] == 'err' else ''
        if isinstance(msg, str) and msg.startswith('Unknown jump label '):
            name = msg[len('Unknown jump label '):]
            ug, uf = WARNED[k]
            if name not in ug and not any(name == lab for lab, _f in uf):
                return False, {{'clause': 'a run raised Unknown jump label for a label lint did not warn about', 'label': name, 'bits': list(bits),
                               'model': repr(model)[:500], 'warnings': repr(lint_script(model))[:300]}}
    return True, {{}}
'''


def plan(tier, seed, workdir):
    import bare_script.model as md
    import bare_script.runtime as rt
    p = Plan('C18', 'exploration')
    p.encode(md.lint_script, md._is_pointless_expression, md._get_variable_assignments_and_uses, md._get_expression_variable_uses,
             rt._execute_script_helper)
    rng = random.Random(seed)
    maxlen = 3 if tier == 'quick' else 4
    models = all_models(maxlen)
    chunk = 3000
    for lo in range(0, len(models), chunk):
        p.add({'kind': 'native', 'id': f'static_{lo}', 'module': 'vf.props.c18', 'fn': 'native_static', 'kwargs': {'maxlen': maxlen, 'lo': lo, 'hi': lo + chunk},
               'timeout': 900, 'est': 40}, family='purity + exactness of label/redefinition warnings (concrete)')
    p.add({'kind': 'native', 'id': 'purity_sources', 'module': 'vf.props.c18', 'fn': 'native_purity_sources', 'kwargs': {}, 'timeout': 600, 'est': 30},
          family='purity on structured programs and shipped .bare files (concrete)')
    p.add({'kind': 'native', 'id': 'hashseed', 'module': 'vf.props.c18', 'fn': 'native_hashseed', 'kwargs': {}, 'timeout': 300, 'est': 10},
          family='determinism across processes with different hash seeds (concrete)')
    jl = 3 if tier == 'quick' else 4
    nseq = len(_just_sequences(jl))
    jchunk = 400 if tier == 'quick' else 450
    for lo in range(0, nseq, jchunk):
        p.add({'kind': 'native', 'id': f'justified_{lo}', 'module': 'vf.props.c18', 'fn': 'native_justified', 'kwargs': {'maxlen': jl, 'lo': lo, 'hi': lo + jchunk},
               'timeout': 1800, 'est': 60}, family='semantic justification of unused/pointless warnings (concrete)')
    # solver part: models with at least one conditional jump and at least one jump whose label may be missing
    sym = [m for m in models if 'cc' in repr(m)]
    rng.shuffle(sym)
    if tier == 'quick':
        sym = [m for m in sym if len(m['statements']) >= 2][:360]
    bsize = 60
    maxbits = 4 if tier == 'quick' else 5
    timeout = 240 if tier == 'quick' else 900
    for i in range(0, len(sym), bsize):
        body = CORE.format(models=sym[i:i + bsize])
        body += hgen.harness('labels', 'bits: List[bool]', [f'len(bits) <= {maxbits}'], core_call='core_labels(bits)')
        path = hgen.write_module(workdir, f'c18_b{i // bsize:03d}', body)
        hgen.ch_tasks(p, path, 'labels', timeout, twin_timeout=90, est=60, family='runtime Unknown jump label implies a lint warning', n=len(sym[i:i + bsize]))
    p.extra_coverage.update(models_static=len(models), models_symbolic=len(sym), justification_sequences=nseq,
                            warning_kinds_recognised=recognised_kinds(), warning_kinds_not_compared=sorted(set(RX) - set(recognised_kinds())))
    p.rule = ('CrossHair batches of jump-level models sharing symbolic oracle bits (unknown-label soundness); native sweeps for purity, static '
              'exactness and edit-justification')
    p.bounds = [f'statement lists of length <= {maxlen} over the C08 vocabulary + 48 two-function models', f'oracle draws <= {maxbits}',
                f'justification: all function bodies of <= 3 statements (+ 5000 seeded 4-statement bodies in thorough) over {len(BODY_TOKENS)} statement forms, 4 input pairs; runs cut off by the statement budget are not compared']
    p.stubs = ['host functions cc/tt']
    p.outside = ['warnings about use-before-assignment (not part of the property)', 'execution of shipped .bare files (they need MarkdownUp stubs)']
    p.assumptions = ['CrossHair/z3', 'the interpreter (C08 checks it)']
    p.samples = [{'model': two_function_models()[1]}, {'function_body': ['v1 = aa + 1', 'v3 = extra * 2', 'return v2']}]
    return p
