"""
C19 data functions implement their relational meaning; CSV typing round-trips.

CrossHair conditions over tables of <= 3 rows whose measure cells are symbolic ints / nulls and whose category / key
cells are chosen by symbolic indices from a pool that mixes types and JSON punctuation; the library functions are called
through the real call wrapper and compared with a relational reference written in plain Python on the same values.
"""
from ..engine import Plan
from .. import hgen

CORE = '''
import datetime, statistics
from fractions import Fraction
from bare_script import evaluate_expression, parse_script, execute_script
from bare_script.library import SCRIPT_FUNCTIONS
from bare_script.value import value_compare
from vf.hlib.c03spec import truthy, same

KEYS = [1, 1.0, '1', True, 'x.0,', 'x,', None, 2, 'x', 'a]']
MODEL_JOIN = parse_script("return dataJoin(ll, rr, 'kk')")
MODEL_FILTER = parse_script("return dataFilter(dd, 'vv > th', objectNew('th', tt0))")
MODEL_CALC = parse_script("return dataCalculatedField(dd, 'cc', 'vv * 2 + th', objectNew('th', tt0))")


def _pick(pool, i):
    for j in range(len(pool)):
        if i == j:
            return pool[j]
    return pool[0]


def _call(name, args):
    expr = {{'function': {{'name': name, 'args': [{{'variable': 'a' + str(k)}} for k in range(len(args))]}}}}
    g = dict(('a' + str(k), v) for k, v in enumerate(args))
    g[name] = SCRIPT_FUNCTIONS[name]
    log = []
    r = evaluate_expression(expr, {{'globals': g, 'debug': True, 'logFn': log.append, 'statementCount': 0}}, None, False)
    return r, log


def _rows(ks, vs, nulls, n, pool=False):
    rows = []
    for i in range(3):
        if i < n:
            v = vs[i]
            if pool:
                v = _pick([3, -4, 10], vs[i])         # measure values from a concrete pool where the code path serialises or mixes floats
            rows.append({{'kk': _pick(KEYS, ks[i]), 'vv': None if nulls[i] else v, 'id': i}})
    return rows


def _eqkey(a, b):
    return value_compare(a, b) == 0


def core_aggregate(ks, vs, nulls, n, fn):
    rows = _rows(ks, vs, nulls, n, pool=True)
    func = _pick(['count', 'sum', 'min', 'max', 'average', 'stddev'], fn)
    got, log = _call('dataAggregate', [[dict(r) for r in rows], {{'categories': ['kk'], 'measures': [{{'field': 'vv', 'function': func, 'name': 'mm'}}]}}])
    info = {{'rows': repr(rows), 'function': func, 'result': repr(got)[:300], 'log': log[:2]}}
    groups = []
    for r in rows:
        for gk, gv in groups:
            if _eqkey(gk, r['kk']) and isinstance(gk, bool) == isinstance(r['kk'], bool):
                gv.append(r)
                break
        else:
            groups.append((r['kk'], [r]))
    if not isinstance(got, list) or len(got) != len(groups):
        info['clause'] = 'dataAggregate must produce one row per distinct category value (first-seen order)'
        return False, info
    for (gk, members), out in zip(groups, got):
        vals = [m['vv'] for m in members if m['vv'] is not None]
        if not same(out.get('kk'), gk) and not (_eqkey(out.get('kk'), gk)):
            info['clause'] = 'aggregate row carries the wrong category value'
            return False, info
        if not vals:
            want = None
        elif func == 'count':
            want = len(vals)
        elif func == 'sum':
            want = sum(vals)
        elif func == 'min':
            want = min(vals)
        elif func == 'max':
            want = max(vals)
        elif func == 'average':
            want = Fraction(sum(vals), len(vals))
        else:
            mean = Fraction(sum(vals), len(vals))
            want = ('sqrt', sum((Fraction(v) - mean) ** 2 for v in vals) / len(vals))
        m = out.get('mm')
        if want is None or isinstance(want, int):
            ok = same(m, want)
        elif isinstance(want, Fraction):
            ok = isinstance(m, (int, float, Fraction)) and abs(Fraction(m) - want) <= Fraction(1, 10 ** 6) * (1 + abs(want))
        else:
            ok = isinstance(m, (int, float)) and abs(Fraction(m) ** 2 - want[1]) <= Fraction(1, 10 ** 6) * (1 + want[1])
        if not ok:
            info.update(clause='aggregate value over the non-null measures of the category is wrong', category=repr(gk), measure=repr(m), expected=repr(want))
            return False, info
    return True, {{}}


def core_sort(ks, vs, nulls, n, d1, d2, single=False):
    rows = _rows(ks, vs, nulls, n)
    src = [dict(r) for r in rows]
    sorts = [['kk', d1]] if single else [['kk', d1], ['vv', d2]]
    got, log = _call('dataSort', [src, sorts])
    info = {{'rows': repr(rows), 'desc': [d1, d2], 'result': repr(got)[:300], 'log': log[:2]}}
    if not isinstance(got, list) or sorted(r['id'] for r in got) != list(range(n)):
        info['clause'] = 'dataSort must return a permutation of the rows'
        return False, info

    def cmp(r1, r2):
        for f, d in sorts:
            c = value_compare(r1[f], r2[f])
            if c:
                return -c if d else c
        return 0
    for a, b in zip(got, got[1:]):
        c = cmp(a, b)
        if c > 0 or (c == 0 and a['id'] > b['id']):
            info['clause'] = 'dataSort result is not ordered by the keys/directions, or not stable'
            return False, info
    return True, {{}}


def core_top(ks, vs, nulls, n, cnt, flt, bycat):
    rows = _rows(ks, vs, nulls, n)
    count = float(cnt) if flt else cnt
    got, log = _call('dataTop', [[dict(r) for r in rows], count] + ([['kk']] if bycat else []))
    info = {{'rows': repr(rows), 'count': count, 'by_category': bycat, 'result': repr(got)[:300], 'log': log[:2]}}
    want, seen = [], []
    order = []
    for r in rows:
        key = r['kk'] if bycat else 0
        for e in order:
            if _eqkey(e[0], key) and isinstance(e[0], bool) == isinstance(key, bool):
                e[1].append(r)
                break
        else:
            order.append((key, [r]))
    for _k, members in order:
        want.extend(members[:cnt])
    if not isinstance(got, list) or [r['id'] for r in got] != [r['id'] for r in want]:
        info.update(clause='dataTop must keep the first n rows of each category in first-seen category order', expected=repr(want)[:300])
        return False, info
    return True, {{}}


def core_filter(vs, nulls, n, th):
    rows = [{{'vv': None if nulls[i] else vs[i], 'id': i}} for i in range(3) if i < n]
    got = execute_script(MODEL_FILTER, {{'globals': {{'dd': [dict(r) for r in rows], 'tt0': th}}}})
    want = [r for r in rows if r['vv'] is not None and r['vv'] > th]
    if not isinstance(got, list) or [r['id'] for r in got] != [r['id'] for r in want]:
        return False, {{'clause': 'dataFilter must keep exactly the rows whose expression is truthy, in order', 'rows': repr(rows), 'th': th, 'result': repr(got)[:200]}}
    return True, {{}}


def core_calc(vs, n, th):
    th = _pick([0, 5, -1], th)
    rows = [{{'vv': _pick([3, -4, 10], vs[i]), 'id': i}} for i in range(3) if i < n]
    data = [dict(r) for r in rows]
    got = execute_script(MODEL_CALC, {{'globals': {{'dd': data, 'tt0': th}}}})
    if got is not data or not all(r.get('cc') == rows[i]['vv'] * 2 + th and r['vv'] == rows[i]['vv'] for i, r in enumerate(data)) or len(data) != len(rows):
        return False, {{'clause': 'dataCalculatedField must set the expression value on every row', 'rows': repr(rows), 'th': th, 'result': repr(got)[:200]}}
    return True, {{}}


LEFT_FIELDS = [['kk', 'aa'], ['kk', 'aa', 'aa2'], ['kk', 'aa', 'aa2', 'aa3'], ['kk', 'bb']]
RIGHT_FIELDS = [['kk', 'aa'], ['kk', 'aa', 'bb'], ['kk', 'aa', 'aa2'], ['kk', 'cc']]


def core_join(lk, rk, lf, rf, nl, nr):
    lfields, rfields = _pick(LEFT_FIELDS, lf), _pick(RIGHT_FIELDS, rf)
    left = [dict((f, (_pick(KEYS, lk[i]) if f == 'kk' else 'L' + f + str(i))) for f in lfields) for i in range(2) if i < nl]
    right = [dict((f, (_pick(KEYS, rk[i]) if f == 'kk' else 'R' + f + str(i))) for f in rfields) for i in range(2) if i < nr]
    got = execute_script(MODEL_JOIN, {{'globals': {{'ll': [dict(r) for r in left], 'rr': [dict(r) for r in right]}}}})
    info = {{'left': repr(left), 'right': repr(right), 'result': repr(got)[:400]}}
    if not isinstance(got, list):
        info['clause'] = 'dataJoin failed'
        return False, info
    pos = 0
    for l in left:
        matches = [r for r in right if _eqkey(l['kk'], r['kk']) and isinstance(l['kk'], bool) == isinstance(r['kk'], bool)]
        outs = got[pos:pos + max(1, len(matches))]
        pos += max(1, len(matches))
        if len(outs) != max(1, len(matches)):
            info['clause'] = 'dataJoin must pair each left row with the right rows whose key value is equal'
            return False, info
        for k, out in enumerate(outs):
            for f in lfields:
                if f not in out or out[f] is not l[f] and out[f] != l[f]:
                    info.update(clause='dataJoin overwrote or dropped a left field', field=f, row=repr(out))
                    return False, info
            if matches:
                r = matches[k]
                extra = [f for f in out if f not in lfields]
                vals = sorted(repr(out[f]) for f in extra)
                if len(set(extra)) != len(extra) or vals != sorted(repr(r[f]) for f in rfields):
                    info.update(clause='right fields must all be present under unique names', row=repr(out), right=repr(r))
                    return False, info
            elif len(out) != len(lfields):
                info.update(clause='unmatched left row must be kept as is', row=repr(out))
                return False, info
    if pos != len(got):
        info['clause'] = 'dataJoin produced extra rows'
        return False, info
    return True, {{}}


_C3 = [0, 4, 6, 7, 8, 15, 18, 19, 20, 21]
CELLS = ['12', '1.5', 'true', 'false', '', 'null', 'abc', '2024-02-30', '2024-01-05', '2024-13-01', 'x,y', 'he said ""hi""', '2024-01-05T10:00:00Z',
         '-3', '1e3', 'abc def', '2024-02-30T10:00:00Z', '0012', '2023-02-29', '2100-02-29', '2024-04-31', '2024-02-29']


def core_csv(c1, c2, c3):
    cells = [_pick(CELLS, c1), _pick(CELLS, c2), _pick(CELLS, c3)]
    def q(s):
        return '"' + s + '"' if (',' in s or '"' in s) else s
    text = 'f1,f2' + chr(10) + q(cells[0]) + ',' + q(cells[1]) + chr(10) + q(cells[2]) + ',' + chr(10)
    got, log = _call('dataParseCSV', [text])
    info = {{'csv': text, 'result': repr(got)[:300], 'log': log[:2]}}
    if not isinstance(got, list) or len(got) != 2:
        # a column whose cells have incompatible types is a documented validation failure; a date-like invalid text is not
        raw = [c.replace('""', '"') for c in cells]
        kinds = [_kind(c) for c in (raw[0], raw[2])]
        if got is None and len(set(k for k in kinds if k != 'null')) > 1:
            return True, {{}}
        info['clause'] = 'dataParseCSV aborted (text that merely resembles a date must be kept as a string)'
        return False, info
    raw = [c.replace('""', '"') for c in cells]
    col1 = [raw[0], raw[2]]
    kinds = [k for k in (_kind(c) for c in col1) if k != 'null']
    ctype = kinds[0] if kinds else 'string'
    for cell, row in zip(col1, got):
        want = _typed(cell, ctype)
        if want == 'invalid':
            continue
        if not same(row.get('f1'), want):
            info.update(clause='CSV cell does not read back as the typed value', cell=cell, column_type=ctype, value=repr(row.get('f1')), expected=repr(want))
            return False, info
    return True, {{}}


NUMS = [0, 12, -3, 1.5, 1000000, 0.001, -2.5e-07, 1e+21]
DTS = [datetime.datetime(2024, 1, 5), datetime.datetime(2024, 2, 29, 13, 14, 15), datetime.datetime(1999, 12, 31, 23, 59, 59, 123000)]
STRS = ['abc', 'x,y', 'he said "hi"', 'a b', "it's", 'ä', 'line1 line2', '#x']


def core_csvtable(n1, d1, s1, b1, b2, nul):
    n2 = d2 = s2 = 0
    for j in range(8):
        if n1 == j:
            n2 = (j + 3) % 8
        if s1 == j:
            s2 = (j + 5) % 8
    for j in range(3):
        if d1 == j:
            d2 = (j + 1) % 3
    # a typed table (number, boolean, datetime, string columns, optional nulls) written as CSV (RFC 4180 quoting) and read back
    from bare_script.value import value_string
    rows = [{{'num': _pick(NUMS, n1), 'flag': b1, 'when': _pick(DTS, d1), 'text': _pick(STRS, s1)}},
            {{'num': _pick(NUMS, n2), 'flag': b2, 'when': _pick(DTS, d2), 'text': _pick(STRS, s2)}}]
    cols = ['num', 'flag', 'when', 'text']
    if nul > 0:
        rows[1][cols[nul - 1]] = None

    def cell(v):
        if v is None:
            return 'null'
        t = value_string(v)
        return '"' + t.replace('"', '""') + '"' if (',' in t or '"' in t) else t
    text = ','.join(cols) + chr(10) + chr(10).join(','.join(cell(r[c]) for c in cols) for r in rows) + chr(10)
    got, log = _call('dataParseCSV', [text])
    info = {{'csv': text, 'result': repr(got)[:400], 'log': log[:2]}}
    if not isinstance(got, list) or len(got) != 2:
        info['clause'] = 'typed table written as CSV does not parse'
        return False, info
    for want, row in zip(rows, got):
        for c in cols:
            if not same(row.get(c), want[c]):
                info.update(clause='typed value does not survive the CSV round trip', column=c, value=repr(row.get(c)), expected=repr(want[c]))
                return False, info
    return True, {{}}


def _kind(c):
    import re
    if c in ('', 'null'):
        return 'null'
    if re.fullmatch(r'\\d{{4}}-\\d{{2}}-\\d{{2}}', c) or re.fullmatch(r'\\d{{4}}-\\d{{2}}-\\d{{2}}T\\d{{2}}:\\d{{2}}:\\d{{2}}(\\.\\d{{1,6}})?(Z|[+-]\\d{{2}}:\\d{{2}})', c):
        try:
            datetime.datetime.fromisoformat(c.replace('Z', '+00:00'))
            return 'datetime'
        except ValueError:
            return 'string'
    if c in ('true', 'false'):
        return 'boolean'
    try:
        float(c)
        return 'number'
    except ValueError:
        return 'string'


def _typed(c, ctype):
    if c == 'null':
        return None
    if ctype == 'string':
        return c
    if c == '':
        return None
    k = _kind(c)
    if k != ctype:
        return 'invalid'
    if ctype == 'number':
        return float(c)
    if ctype == 'boolean':
        return c == 'true'
    if ctype == 'datetime':
        d = datetime.datetime.fromisoformat(c.replace('Z', '+00:00'))
        return d.astimezone().replace(tzinfo=None) if d.tzinfo else d
    return c
'''


def plan(tier, seed, workdir):
    import bare_script.data as D
    import bare_script.library as L
    p = Plan('C19', 'exploration')
    p.encode(D.aggregate_data, D.sort_data, D.top_data, D.join_data, D.filter_data, D.add_calculated_field, D.validate_data, L._data_parse_csv)
    timeout = 150 if tier == 'quick' else 500
    nmax = 2 if tier == 'quick' else 3
    kmax = 4 if tier == 'quick' else 6
    vmax = 2 if tier == 'quick' else 3
    jk = 3 if tier == 'quick' else 4
    tasks = []
    K3 = 'k0: int, k1: int, k2: int'
    V3 = 'v0: int, v1: int, v2: int'

    def kpre(n):
        return [f'0 <= k{i} < {kmax}' if i < n else f'k{i} == 0' for i in range(3)]

    def vpre(n, bound=None):
        out = []
        for i in range(3):
            if i >= n:
                out.append(f'v{i} == 0')
            elif bound:
                out.append(f'0 <= v{i} < {bound}')
        return out
    for n in range(1, nmax + 1):
        for fn in range(6):
            tasks.append((f'aggregate_n{n}_f{fn}', f'{K3}, {V3}, nul: int', kpre(n) + vpre(n, vmax) + [f'0 <= nul <= {n}'],
                          f'core_aggregate([k0, k1, k2], [v0, v1, v2], [nul == 1, nul == 2, nul == 3], {n}, {fn})'))
        tasks.append((f'sort_n{n}', f'{K3}, {V3}, nul: int, d1: bool, d2: bool', kpre(n) + vpre(n) + [f'0 <= nul <= {n}'],
                      f'core_sort([k0, k1, k2], [v0, v1, v2], [nul == 1, nul == 2, nul == 3], {n}, d1, d2)'))
        tasks.append((f'sort1_n{n}', f'{K3}, d1: bool', kpre(n), f'core_sort([k0, k1, k2], [0, 0, 0], [False, False, False], {n}, d1, False, True)'))
        tasks.append((f'top_n{n}', f'{K3}, cnt: int, flt: bool, bycat: bool', kpre(n) + ['1 <= cnt <= 2', 'bycat or k0 == 0'],
                      f'core_top([k0, k1, k2], [0, 0, 0], [False, False, False], {n}, cnt, flt, bycat)'))
        tasks.append((f'filter_n{n}', f'{V3}, nul: int, th: int', vpre(n) + [f'0 <= nul <= {n}'],
                      f'core_filter([v0, v1, v2], [nul == 1, nul == 2, nul == 3], {n}, th)'))
        tasks.append((f'calc_n{n}', f'{V3}, th: int', vpre(n, 3) + ['0 <= th < 3'], f'core_calc([v0, v1, v2], {n}, th)'))
    if nmax < 3:
        # dataTop with three rows also in quick: same-category rows that are not adjacent need >= 3 rows
        tasks.append(('top_n3', f'{K3}, cnt: int, flt: bool, bycat: bool', [f'0 <= k{i} < {kmax}' for i in range(3)] + ['1 <= cnt <= 2', 'bycat'],
                      'core_top([k0, k1, k2], [0, 0, 0], [False, False, False], 3, cnt, flt, bycat)'))
    layouts = [(1, 0), (2, 2), (0, 1), (3, 3), (2, 0)] if tier == 'quick' else [(a, b) for a in range(4) for b in range(4)]
    for lf, rf in layouts:
        tasks.append((f'join_{lf}{rf}', 'l0: int, l1: int, r0: int, r1: int, nl: int, nr: int',
                      [f'0 <= l0 < {jk}', f'0 <= l1 < {jk}', f'0 <= r0 < {jk}', f'0 <= r1 < {jk}', '1 <= nl <= 2', '1 <= nr <= 2'],
                      f'core_join([l0, l1], [r0, r1], {lf}, {rf}, nl, nr)'))
    for c2 in (0, 4, 7, 12):
        tasks.append((f'csv_{c2}', 'c1: int, c3: int', ['0 <= c1 < 22', '0 <= c3 < 22' if tier == 'thorough' else '0 <= c3 < 10'],
                      f'core_csv(c1, {c2}, _C3[c3] if {tier == "quick"!r} else c3)'))
    tasks.append(('csvtable', 'n1: int, d1: int, s1: int, b1: bool, b2: bool, nul: int',
                  ['0 <= n1 < 8', '0 <= d1 < 3', '0 <= s1 < 8', '0 <= nul <= 4'], 'core_csvtable(n1, d1, s1, b1, b2, nul)'))
    body = CORE.format()
    for name, params, pre, call in tasks:
        body += hgen.harness(name, params, pre, core_call=call)
    path = hgen.write_module(workdir, 'c19_data', body)
    def domain(name, params):
        # finite index domains (symbolic ints of sort/filter stay out: those conditions are genuinely unbounded)
        if name == 'csvtable':
            return {'n1': list(range(8)), 'd1': [0, 1, 2], 's1': list(range(8)), 'b1': [False, True], 'b2': [False, True], 'nul': [0, 1, 2, 3, 4]}
        if name.startswith(('sort_', 'filter_')):
            return None
        n = int(name.split('_n')[1][0]) if '_n' in name else 2
        dom = {}
        for prm in [q.split(':')[0].strip() for q in params.split(',')]:
            if prm in ('k0', 'k1', 'k2'):
                dom[prm] = list(range(kmax)) if int(prm[1]) < n else [0]
            elif prm in ('v0', 'v1', 'v2'):
                dom[prm] = list(range(vmax if name.startswith('aggregate') else 3)) if int(prm[1]) < n else [0]
            elif prm == 'nul':
                dom[prm] = list(range(n + 1))
            elif prm == 'cnt':
                dom[prm] = [1, 2]
            elif prm in ('flt', 'bycat', 'd1'):
                dom[prm] = [False, True]
            elif prm == 'th':
                dom[prm] = [0, 1, 2]
            elif prm in ('l0', 'l1', 'r0', 'r1'):
                dom[prm] = list(range(jk))
            elif prm in ('nl', 'nr'):
                dom[prm] = [1, 2]
            elif prm == 'c1':
                dom[prm] = list(range(22))
            elif prm == 'c3':
                dom[prm] = list(range(22 if tier == 'thorough' else 10))
            else:
                return None
        return dom
    for name, params, pre, call in tasks:
        hgen.ch_tasks(p, path, name, timeout, twin_timeout=60, est=40, family='data function ' + name.split('_')[0], enum=domain(name, params))
    p.rule = 'one CrossHair condition per data function over a symbolic table (measure cells symbolic ints/nulls, key cells from a mixed-type pool)'
    p.bounds = ['tables <= 2 (quick) / 3 (thorough) rows (join: 2 x 2)', 'measures: symbolic ints for sort/filter, pool values where the code serialises or mixes floats; at most one null; categories/keys from a 10-element pool (1, 1.0, "1", true, null, strings '
                'with JSON punctuation)', 'join field layouts incl. aa/aa2/aa3 collisions', 'CSV: 18 cell texts incl. quoted commas/quotes and date-like invalid text']
    p.stubs = ['ValueArgsError message formatting']
    p.outside = ['tables of 12 x 5', 'float measures (average/stddev compared with exact rationals to 1e-6 relative)', 'multi-column category lists',
                 'csv module internals (C)']
    p.assumptions = ['CrossHair/z3', 'value_compare equality for grouping (C11)', 'relational reference written in the harness']
    p.samples = [{'function': 'dataAggregate', 'rows': "[{'kk': 1, 'vv': v0}, {'kk': 1.0, 'vv': null}, {'kk': 'x.0,', 'vv': v2}]"}]
    return p
