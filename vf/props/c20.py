"""
C20 diffLines (include <diff.bare>) reconstructs both inputs; shipped includes parse/validate/lint clean.

The real diff.bare is loaded through the CLI's include fetcher and interpreted by the real interpreter.  One CrossHair
condition per length pair (nl, nr): every line is chosen by a symbolic index from a small alphabet that contains the
empty line, and a symbolic selector decides whether the inputs are passed as arrays, as LF text or as CRLF text.  The
solver enumerates the choices path by path (solver-driven exhaustive enumeration: the only data-dependent branches of
the algorithm are line comparisons) and every counterexample is replayed natively.
"""
from ..engine import Plan
from .. import hgen

CORE = '''
from bare_script import parse_script, execute_script
from bare_script.bare import _fetch_include, _FETCH_INCLUDE_PREFIX
from bare_script.runtime import BareScriptRuntimeError

_G = {{}}
execute_script(parse_script("include <diff.bare>\\n"), {{'globals': _G, 'fetchFn': _fetch_include, 'systemPrefix': _FETCH_INCLUDE_PREFIX}})
_CALL = parse_script("return diffLines(L, R)")
ALPHA = {alpha!r}
NL, NR = {nl}, {nr}


def _pick(i):
    for j in range(len(ALPHA)):
        if i == j:
            return ALPHA[j]
    return ALPHA[0]


def _run(L, R):
    g = dict(_G)
    g['L'] = L
    g['R'] = R
    log = []
    d = execute_script(_CALL, {{'globals': g, 'maxStatements': 20000, 'debug': True, 'logFn': log.append}})
    return d, log


def core_diff(ids, mode):
    left = [_pick(ids[k]) for k in range(NL)]
    right = [_pick(ids[NL + k]) for k in range(NR)]
    if mode == 0:
        L, R = list(left), list(right)
    else:
        sep = chr(10) if mode == 1 else chr(13) + chr(10)
        L, R = sep.join(left), sep.join(right)
    try:
        d, log = _run(L, R)
    except BareScriptRuntimeError as exc:
        return False, {{'clause': 'diffLines raised', 'left': left, 'right': right, 'mode': mode, 'error': str(exc)[:200]}}
    info = {{'left': left, 'right': right, 'mode': mode, 'result': repr(d)[:400], 'log': log[:3]}}
    if not isinstance(d, list):
        info['clause'] = 'result is not a list of blocks'
        return False, info
    rl, rr = [], []
    kinds = []
    for blk in d:
        if not isinstance(blk, dict) or blk.get('type') not in ('Identical', 'Add', 'Remove') or not isinstance(blk.get('lines'), list) \\
                or len(blk['lines']) == 0:
            info['clause'] = 'block must be Identical/Add/Remove with a non-empty line list'
            return False, info
        kinds.append(blk['type'])
        if blk['type'] != 'Add':
            rl.extend(blk['lines'])
        if blk['type'] != 'Remove':
            rr.extend(blk['lines'])
    if rl != left:
        info['clause'] = 'Identical+Remove blocks must concatenate to the left lines'
        return False, info
    if rr != right:
        info['clause'] = 'Identical+Add blocks must concatenate to the right lines'
        return False, info
    if left == right and ('Add' in kinds or 'Remove' in kinds):
        info['clause'] = 'identical inputs must not yield Add/Remove'
        return False, info
    if log:
        info['clause'] = 'a library call failed inside diffLines (debug log not empty)'
        return False, info
    return True, {{}}
'''


def includes_native():
    """By-product (concrete, finite set): every shipped include parses, validates and lints clean."""
    import importlib.resources
    from bare_script import parse_script, validate_script, lint_script
    bad = []
    n = 0
    for res in sorted(importlib.resources.files('bare_script.include').iterdir(), key=lambda r: r.name):
        if not res.name.endswith('.bare'):
            continue
        n += 1
        try:
            model = parse_script(res.read_text(encoding='utf-8'))
            validate_script(model)
            warnings = lint_script(model)
        except Exception as exc:  # pylint: disable=broad-exception-caught
            bad.append(f'{res.name}: {type(exc).__name__}: {exc}'[:200])
            continue
        if warnings:
            bad.append(f'{res.name}: lint: {warnings[:3]}')
    if bad:
        return {'state': 'violation', 'detail': bad, 'replay': {'module': 'vf.props.c20', 'fn': 'replay_includes', 'kwargs': {}}}
    return {'state': 'ok', 'checked': n}


def replay_includes():
    r = includes_native()
    return r['state'] == 'ok', {'clause': 'shipped include must parse, validate and lint clean', 'problems': r.get('detail')}


def plan(tier, seed, workdir):
    import bare_script.runtime as rt
    import bare_script.bare as bare
    p = Plan('C20', 'exploration')
    p.encode(rt.execute_script, bare._fetch_include)
    import importlib.resources
    import hashlib
    src = importlib.resources.files('bare_script.include').joinpath('diff.bare').read_text(encoding='utf-8')
    p.functions_encoded.append({'name': 'bare_script/include/diff.bare:diffLines (interpreted)', 'sha1': hashlib.sha1(src.encode()).hexdigest()[:12]})
    alpha = ['a', 'a ', ''] if tier == 'quick' else ['a', 'a ', '', 'b']        # 'a ' differs from 'a' only by a trailing blank
    if tier == 'quick':
        pairs = [(a, b) for a in range(3) for b in range(3)] + [(3, 0), (0, 3), (3, 1), (1, 3)]
        timeout = 200
    else:
        pairs = [(a, b) for a in range(4) for b in range(4)] + [(4, 0), (0, 4), (4, 1), (1, 4), (4, 2), (2, 4)]
        timeout = 2400
    full_alpha = alpha
    for nl, nr in pairs:
        n = nl + nr
        alpha = full_alpha if n <= 5 else full_alpha[:3]        # 4^6 combinations of one condition do not finish inside the budget
        for mode in ((0, 1, 2) if (nl and nr) else (0,)):
            body = CORE.format(alpha=alpha, nl=nl, nr=nr)
            pre = [f'len(ids) == {n}', f'all(0 <= x < {len(alpha)} for x in ids)']
            body += hgen.harness('diff', 'ids: List[int]', pre, core_call=f'core_diff(ids, {mode})')
            path = hgen.write_module(workdir, f'c20_{nl}x{nr}_m{mode}', body)
            import itertools
            dom = [list(c) for c in itertools.product(range(len(alpha)), repeat=n)] if len(alpha) ** n <= 1100 else None
            hgen.ch_tasks(p, path, 'diff', timeout, twin_timeout=60, est=min(timeout, 2 * len(alpha) ** n), family='diffLines', nl=nl, nr=nr,
                          mode=['arrays', 'LF text', 'CRLF text'][mode], enum={'ids': dom} if dom else None)
    p.add({'kind': 'native', 'id': 'includes_native', 'module': 'vf.props.c20', 'fn': 'includes_native', 'kwargs': {}, 'timeout': 120},
          family='shipped includes parse/validate/lint (native by-product, finite set)')
    p.rule = ('one CrossHair condition per (left length, right length, input mode arrays / LF text / CRLF text); symbolic line choices '
              'over the alphabet; non-trivial = twin refuted and decided')
    p.bounds = [f'alphabet {full_alpha} (contains the empty line; 3 letters for 6-line pairs)', f'length pairs {pairs}', 'text modes only when both sides are non-empty '
                '(an empty array has no text spelling)', 'maxStatements 20000']
    p.stubs = []
    p.outside = ['lists longer than the stated pairs; random 40-line inputs', 'lines containing CR/LF inside array elements']
    p.assumptions = ['CrossHair/z3', 'the interpreter itself (C01/C03/C08 check it)']
    p.samples = [{'nl': 2, 'nr': 2, 'alphabet': full_alpha, 'modes': ['arrays', 'LF text', 'CRLF text']}]
    return p
