"""
Replay a counterexample natively (no CrossHair) against /repo's current tree.

  .venv/bin/python -m vf.replay replay/C01-xxxx.json        exit 1 = violation reproduces, 0 = it does not
"""
import importlib
import importlib.util
import json
import os
import sys
import tempfile


def replay(obj):
    if obj['kind'] == 'ch':
        fd, path = tempfile.mkstemp(suffix='.py', prefix='vfreplay_')
        try:
            with os.fdopen(fd, 'w') as fh:
                fh.write(obj['harness_src'])
            spec = importlib.util.spec_from_file_location('vfreplay_mod', path)
            mod = importlib.util.module_from_spec(spec)
            sys.modules['vfreplay_mod'] = mod
            spec.loader.exec_module(mod)
        finally:
            os.unlink(path)
        fn = getattr(mod, obj['fn'])
        explain = getattr(mod, 'explain_' + obj['fn'], None)
        info = {}
        try:
            ok = bool(fn(*obj.get('args', []), **obj.get('kwargs', {})))
        except Exception as exc:  # pylint: disable=broad-exception-caught
            ok = False
            info['exception'] = f'{type(exc).__name__}: {exc}'
        if explain is not None:
            try:
                info.update(explain(*obj.get('args', []), **obj.get('kwargs', {})))
            except Exception as exc:  # pylint: disable=broad-exception-caught
                info['explain_error'] = f'{type(exc).__name__}: {exc}'
        return ok, info
    mod = importlib.import_module(obj['module'])
    out = getattr(mod, obj['fn'])(**obj.get('kwargs', {}))
    if isinstance(out, tuple):
        return bool(out[0]), out[1]
    return bool(out), {}


def main():
    obj = json.load(open(sys.argv[1]))
    sys.path.insert(0, os.path.dirname(os.path.dirname(os.path.abspath(__file__))))
    ok, info = replay(obj)
    if '--json' in sys.argv:
        print('@@REPLAY ' + json.dumps(info, default=repr))
    else:
        print('property holds on this input' if ok else 'VIOLATION reproduces', json.dumps(info, default=repr, indent=1))
    sys.exit(0 if ok else 1)


if __name__ == '__main__':
    main()
