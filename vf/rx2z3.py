"""
rx2z3: translate *live* compiled `re` patterns (str patterns) into z3 regular expressions.

Supported: literals, classes (incl. negated, ranges, \\d \\s \\w and their complements with re's Unicode meaning up to
U+2FFFF), '.', greedy/lazy repeats (language-equivalent), groups (capturing, non-capturing, named), alternation,
^ at the very start and $ at the very end of the pattern (returned as flags).  Anything else raises Unsupported -
callers then report the lemma as skipped, never as a verdict.
"""
import re
import re._parser as sp
import re._constants as sc

import z3

MAXCP = 0x2FFFF      # z3's character universe


class Unsupported(Exception):
    pass


def _ranges(pred):
    out, start = [], None
    for cp in range(MAXCP + 1):
        if pred(chr(cp)):
            if start is None:
                start = cp
        elif start is not None:
            out.append((start, cp - 1))
            start = None
    if start is not None:
        out.append((start, MAXCP))
    return out


_CAT_CACHE = {}


ASCII_ONLY = [False]     # set by Rx(..., ascii_only=True): every string of the query is constrained to ASCII by the caller


def _category(name):
    if ASCII_ONLY[0]:
        return [(lo, min(hi, 0x7f)) for lo, hi in _category_full(name) if lo <= 0x7f]
    return _category_full(name)


def _category_full(name):
    if name not in _CAT_CACHE:
        probe = {'digit': re.compile(r'\d'), 'space': re.compile(r'\s'), 'word': re.compile(r'\w')}[name]
        _CAT_CACHE[name] = _ranges(lambda c: probe.match(c) is not None)      # ask re itself what the category contains
    return _CAT_CACHE[name]


def ch(cp):
    return z3.StringVal('\\u{%x}' % cp) if cp > 0x7e or cp < 0x20 or cp == 0x5c else z3.StringVal(chr(cp))


def re_char(cp):
    return z3.Re(ch(cp))


def re_range(lo, hi):
    if lo == hi:
        return re_char(lo)
    return z3.Range(ch(lo), ch(hi))


def union(rs):
    rs = list(rs)
    if not rs:
        return z3.Empty(z3.ReSort(z3.StringSort()))
    return rs[0] if len(rs) == 1 else z3.Union(*rs)


ANY = z3.AllChar(z3.ReSort(z3.StringSort()))
FULL = z3.Full(z3.ReSort(z3.StringSort()))
EPS = z3.Re(z3.StringVal(''))
NL = re_char(10)
DOT = z3.Intersect(ANY, z3.Complement(NL))
NOT_NL_STAR = z3.Star(DOT)


def _class(items):
    parts, neg = [], False
    for op, av in items:
        if op is sc.NEGATE:
            neg = True
        elif op is sc.LITERAL:
            parts.append(re_char(av))
        elif op is sc.RANGE:
            parts.append(re_range(av[0], min(av[1], MAXCP)))
        elif op is sc.CATEGORY:
            parts.append(_cat(av))
        else:
            raise Unsupported(f'class item {op}')
    r = union(parts)
    return z3.Intersect(ANY, z3.Complement(r)) if neg else r


def _cat(av):
    table = {sc.CATEGORY_DIGIT: ('digit', False), sc.CATEGORY_NOT_DIGIT: ('digit', True), sc.CATEGORY_SPACE: ('space', False),
             sc.CATEGORY_NOT_SPACE: ('space', True), sc.CATEGORY_WORD: ('word', False), sc.CATEGORY_NOT_WORD: ('word', True)}
    if av not in table:
        raise Unsupported(f'category {av}')
    name, neg = table[av]
    r = union(re_range(lo, hi) for lo, hi in _category(name))
    return z3.Intersect(ANY, z3.Complement(r)) if neg else r


def _seq(items, groups):
    parts = [_node(op, av, groups) for op, av in items]
    if not parts:
        return EPS
    return parts[0] if len(parts) == 1 else z3.Concat(*parts)


def _node(op, av, groups):
    if op is sc.LITERAL:
        return re_char(av)
    if op is sc.NOT_LITERAL:
        return z3.Intersect(ANY, z3.Complement(re_char(av)))
    if op is sc.IN:
        return _class(av)
    if op is sc.ANY:
        return DOT
    if op in (sc.MAX_REPEAT, sc.MIN_REPEAT):
        lo, hi, sub = av
        r = _seq(list(sub), groups)
        if hi is sc.MAXREPEAT:
            if lo == 0:
                return z3.Star(r)
            if lo == 1:
                return z3.Plus(r)
            return z3.Concat(z3.Loop(r, lo, lo), z3.Star(r))
        if lo == 0 and hi == 1:
            return z3.Option(r)
        return z3.Loop(r, lo, hi)
    if op is sc.SUBPATTERN:
        gid = av[0]
        r = _seq(list(av[3]), groups)
        if gid is not None:
            groups[gid] = r
        return r
    if op is sc.BRANCH:
        return union(_seq(list(b), groups) for b in av[1])
    raise Unsupported(f'node {op}')


def _has_lookahead(items):
    for op, av in items:
        if op in (sc.ASSERT, sc.ASSERT_NOT):
            return True
        if op is sc.BRANCH and any(_has_lookahead(list(b)) for b in av[1]):
            return True
        if op is sc.SUBPATTERN and _has_lookahead(list(av[3])):
            return True
    return False


def _strip_lookahead(items):
    """language over-approximation: drop lookaheads (callers that care use alternatives())"""
    out = []
    for op, av in items:
        if op in (sc.ASSERT, sc.ASSERT_NOT):
            continue
        if op is sc.BRANCH:
            out.append((op, (av[0], [_strip_lookahead(list(b)) for b in av[1]])))
        else:
            out.append((op, av))
    return out


def _split_lookahead(items):
    neg = None
    if items and items[-1][0] is sc.ASSERT_NOT and items[-1][1][0] == 1:
        sub = list(items[-1][1][1])
        if len(sub) == 1 and sub[0][0] in (sc.IN, sc.LITERAL):
            neg = _node(sub[0][0], sub[0][1], {})
            items = items[:-1]
    if _has_lookahead(items):
        raise Unsupported('lookaround that is not a trailing one-character negative lookahead')
    return (_seq(items, {}), neg)


class Rx:
    """pattern -> body regex + anchor flags + per-group sub-regexes"""

    def __init__(self, pat, ascii_only=False):
        ASCII_ONLY[0] = ascii_only
        if isinstance(pat, str):
            pat = re.compile(pat)
        self.pattern = pat
        if pat.flags & (re.IGNORECASE | re.DOTALL | re.VERBOSE | re.ASCII):
            raise Unsupported(f'flags {pat.flags}')
        self.multiline = bool(pat.flags & re.MULTILINE)
        tree = sp.parse(pat.pattern, pat.flags & ~re.UNICODE)
        items = list(tree)
        self.start = self.end = False
        if items and items[0][0] is sc.AT and items[0][1] in (sc.AT_BEGINNING, sc.AT_BEGINNING_STRING):
            self.start = True
            items = items[1:]
        if items and items[-1][0] is sc.AT and items[-1][1] in (sc.AT_END,):
            self.end = True
            items = items[:-1]
        for op, av in items:
            if op is sc.AT:
                raise Unsupported('anchor inside the pattern')
        self._groups = {}
        self.has_lookahead = _has_lookahead(items)
        self.body = _seq(_strip_lookahead(items), self._groups)
        self.groupindex = dict(pat.groupindex)
        self._alts = None
        if len(items) == 1 and items[0][0] is sc.BRANCH:
            self._alts = [_split_lookahead(list(b)) for b in items[0][1][1]]

    def group(self, name):
        return self._groups[self.groupindex[name] if isinstance(name, str) else name]

    def alternatives(self):
        """list of (body regex, negative one-character lookahead class or None) per top-level alternative"""
        return self._alts or [(self.body, None)]

    def lang_match(self):
        """strings s for which pattern.match(s) succeeds"""
        if self.end:
            tail = union([EPS, NL]) if not self.multiline else union([EPS, z3.Concat(NL, FULL)])
        else:
            tail = FULL
        return z3.Concat(self.body, tail)

    def lang_fullline(self):
        """strings s WITHOUT a line feed for which pattern.match(s) succeeds (what parse_script's line classification sees)"""
        if self.end:
            return self.body
        return z3.Concat(self.body, NOT_NL_STAR)

    def lang_search(self, body=None):
        """strings s for which pattern.search(s) succeeds (pattern.sub fires somewhere)"""
        body = self.body if body is None else body
        if self.start:
            head = EPS if not self.multiline else union([EPS, z3.Concat(FULL, NL)])
        else:
            head = FULL
        if self.end:
            tail = union([EPS, NL]) if not self.multiline else union([EPS, z3.Concat(NL, FULL)])
        else:
            tail = FULL
        return z3.Concat(head, body, tail)


def strval(text):
    """z3 string constant for an arbitrary Python str (z3 literals interpret \\u escapes, so backslashes and non-printables are encoded)"""
    out = []
    for c in text:
        o = ord(c)
        if c == '\\' or o < 0x20 or o > 0x7e:
            out.append('\\u{%x}' % o)
        else:
            out.append(c)
    return z3.StringVal(''.join(out))


def model_str(model, var):
    v = model.eval(var, model_completion=True)
    return v.as_string() if hasattr(v, 'as_string') else str(v)


def py_str(z3_string_literal):
    """z3's as_string() escapes non-printables as \\u{..}; turn it back into a Python str"""
    out, i, s = [], 0, z3_string_literal
    while i < len(s):
        if s.startswith('\\u{', i):
            j = s.index('}', i)
            out.append(chr(int(s[i + 3:j], 16)))
            i = j + 1
        else:
            out.append(s[i])
            i += 1
    return ''.join(out)


def validate(rx, samples, mode='match'):
    """Translator validation: the z3 language must agree with the real regex on concrete samples. -> list of mismatches"""
    lang = {'match': rx.lang_match, 'search': rx.lang_search, 'fullline': rx.lang_fullline}[mode]()
    bad = []
    for s in samples:
        if any(ord(c) > MAXCP for c in s):
            continue
        if mode == 'fullline' and '\n' in s:
            continue
        real = (rx.pattern.search(s) if mode == 'search' else rx.pattern.match(s)) is not None
        sol = z3.Solver()
        sol.set('timeout', 20000)
        sol.add(z3.InRe(strval(s), lang))
        got = str(sol.check())
        if (got == 'sat') != real:
            bad.append((s, real, got))
    return bad
