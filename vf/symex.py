"""
symex: a small symbolic evaluator that runs the *real AST* of a Python function over z3 terms.

Value universe (bounded nesting by levels):  level 0 scalars, level k containers of level k-1 values
    Null | Bool b | Int i | Float r | Str s | Dt t | Fn k | Rx k | Unk k | Arr n e0 e1 | Obj n k0 v0 k1 v1
ints are mathematical integers, floats are reals (NaN/inf excluded - the property excludes NaN), strings are z3 strings
(lexicographic `<` by code point = Python's), datetimes are integer instants after value_normalize_datetime (stubbed as
the identity on the instant: the documented key map), arrays have <= 2 elements, objects <= 2 string keys kept in
strictly increasing key order (so sorted(o.items()) is the representation order).

The evaluator interprets: if/elif/else, return, assignment, for ... in range(<bounded symbolic int>), conditional
expressions, and/or/not, comparisons, isinstance, `is None`, len, min, callable, subscripts with concrete indices,
calls of other bare_script.value functions (inlined through their own AST).  Anything else raises Unsupported; callers
then report the lemma as skipped.  Execution is continuation-style (no environment merging): the result of a function
is one nested If-term plus an error condition (host TypeError) term.
"""
import ast
import inspect
import textwrap

import z3

MAXLEN = 2


class Unsupported(Exception):
    pass


class Universe:
    def __init__(self, levels=1):
        self.sorts = []
        prev = None
        for lv in range(levels + 1):
            dt = z3.Datatype(f'V{lv}')
            dt.declare('Null')
            dt.declare('Bool', ('b', z3.BoolSort()))
            dt.declare('Int', ('i', z3.IntSort()))
            dt.declare('Float', ('r', z3.RealSort()))
            dt.declare('Str', ('s', z3.StringSort()))
            dt.declare('Dt', ('t', z3.IntSort()))
            dt.declare('Fn', ('fk', z3.IntSort()))
            dt.declare('Rx', ('rk', z3.IntSort()))
            dt.declare('Unk', ('uk', z3.IntSort()))
            if prev is not None:
                dt.declare('Arr', ('an', z3.IntSort()), ('e0', prev), ('e1', prev))
                dt.declare('Obj', ('on', z3.IntSort()), ('k0', z3.StringSort()), ('v0', prev), ('k1', z3.StringSort()), ('v1', prev))
            prev = dt.create()
            self.sorts.append(prev)
        self.top = levels

    def var(self, name, level=None):
        level = self.top if level is None else level
        return Val(self, level, z3.Const(name, self.sorts[level]))

    def wellformed(self, v):
        """representation invariant: lengths in range, object keys strictly increasing, recursively"""
        s = self.sorts[v.level]
        cons = []
        if v.level > 0:
            t = v.term
            arr, obj = s.is_Arr(t), s.is_Obj(t)
            cons.append(z3.Implies(arr, z3.And(s.an(t) >= 0, s.an(t) <= MAXLEN)))
            cons.append(z3.Implies(obj, z3.And(s.on(t) >= 0, s.on(t) <= MAXLEN, z3.Implies(s.on(t) == 2, s.k0(t) < s.k1(t)))))
            for f in (s.e0, s.e1, s.v0, s.v1):
                cons.append(self.wellformed(Val(self, v.level - 1, f(t))))
        return z3.And(*cons) if cons else z3.BoolVal(True)

    def from_python(self, x, level=None):
        """concrete Python value -> closed ADT term (translator validation)"""
        import datetime
        import re as _re
        level = self.top if level is None else level
        s = self.sorts[level]
        if x is None:
            return Val(self, level, s.Null)
        if isinstance(x, bool):
            return Val(self, level, s.Bool(z3.BoolVal(x)))
        if isinstance(x, int):
            return Val(self, level, s.Int(z3.IntVal(x)))
        if isinstance(x, float):
            return Val(self, level, s.Float(z3.RealVal(repr(x)) if x == x else z3.RealVal(0)))
        if isinstance(x, str):
            from . import rx2z3
            return Val(self, level, s.Str(rx2z3.strval(x)))
        if isinstance(x, datetime.datetime):
            return Val(self, level, s.Dt(z3.IntVal(int((x - datetime.datetime(2000, 1, 1)).total_seconds() * 1000000))))
        if isinstance(x, _re.Pattern):
            return Val(self, level, s.Rx(z3.IntVal(0)))
        if callable(x):
            return Val(self, level, s.Fn(z3.IntVal(0)))
        if level == 0:
            raise Unsupported('container at level 0')
        sub = self.sorts[level - 1]
        pad = sub.Null
        if isinstance(x, list):
            if len(x) > MAXLEN:
                raise Unsupported('array too long')
            es = [self.from_python(e, level - 1).term for e in x] + [pad, pad]
            return Val(self, level, s.Arr(z3.IntVal(len(x)), es[0], es[1]))
        if isinstance(x, dict):
            if len(x) > MAXLEN:
                raise Unsupported('object too large')
            from . import rx2z3
            items = sorted(x.items())
            ks = [rx2z3.strval(k) for k, _ in items] + [z3.StringVal(''), z3.StringVal('')]
            vs = [self.from_python(v, level - 1).term for _, v in items] + [pad, pad]
            return Val(self, level, s.Obj(z3.IntVal(len(items)), ks[0], vs[0], ks[1], vs[1]))
        raise Unsupported(type(x).__name__)


class Val:
    """a symbolic BareScript value at a nesting level"""
    def __init__(self, u, level, term):
        self.u, self.level, self.term = u, level, term
        self.s = u.sorts[level]

    def is_(self, cons):
        if cons in ('Arr', 'Obj') and self.level == 0:
            return z3.BoolVal(False)
        return getattr(self.s, 'is_' + cons)(self.term)

    def num(self):
        """numeric value as a real (Bool as 0/1, like Python)"""
        s, t = self.s, self.term
        return z3.If(s.is_Int(t), z3.ToReal(s.i(t)), z3.If(s.is_Float(t), s.r(t), z3.If(z3.And(s.is_Bool(t), s.b(t)), z3.RealVal(1), z3.RealVal(0))))


class SeqItems:
    """sorted(obj.items()) / a list: bounded sequence with symbolic length; element k is a concrete Python object or tuple"""
    def __init__(self, n, items):
        self.n, self.items = n, items


class Err(Exception):
    pass


class Interp:
    def __init__(self, universe, module, stubs=None):
        self.u = universe
        self.module = module
        self.stubs = stubs or {}
        self.errors = []          # conditions under which a host exception (TypeError) would be raised
        self.depth = 0

    # -- entry ------------------------------------------------------------------------------------------------------
    def call(self, fn, args, path=None):
        """symbolically execute python function fn on args -> result (Python object or z3 term / Val)"""
        path = z3.BoolVal(True) if path is None else path
        src = textwrap.dedent(inspect.getsource(fn))
        tree = ast.parse(src).body[0]
        if not isinstance(tree, ast.FunctionDef):
            raise Unsupported('not a function')
        params = [a.arg for a in tree.args.args]
        env = dict(zip(params, args))
        self.depth += 1
        if self.depth > 12:
            raise Unsupported('inlining depth')
        try:
            body = [st for st in tree.body if not (isinstance(st, ast.Expr) and isinstance(st.value, ast.Constant))]
            return self.block(body, 0, env, path, lambda env2, path2: None)
        finally:
            self.depth -= 1

    # -- statements (continuation style) ----------------------------------------------------------------------------
    def block(self, stmts, i, env, path, after):
        if i >= len(stmts):
            return after(env, path)
        st = stmts[i]
        nxt = lambda e, p: self.block(stmts, i + 1, e, p, after)
        if isinstance(st, ast.Return):
            return self.expr(st.value, env, path) if st.value is not None else None
        if isinstance(st, ast.Assign):
            if len(st.targets) != 1 or not isinstance(st.targets[0], ast.Name):
                raise Unsupported('assignment target')
            env = dict(env)
            env[st.targets[0].id] = self.expr(st.value, env, path)
            return nxt(env, path)
        if isinstance(st, ast.If):
            c = self.truth(self.expr(st.test, env, path))
            if c is True:
                return self.block(st.body, 0, env, path, nxt)
            if c is False:
                return self.block(st.orelse, 0, env, path, nxt)
            a = self.block(st.body, 0, env, z3.And(path, c), nxt)
            b = self.block(st.orelse, 0, env, z3.And(path, z3.Not(c)), nxt)
            return self.ite(c, a, b)
        if isinstance(st, ast.For):
            if not (isinstance(st.iter, ast.Call) and getattr(st.iter.func, 'id', None) == 'range' and len(st.iter.args) == 1
                    and isinstance(st.target, ast.Name) and not st.orelse):
                raise Unsupported('for loop form')
            bound = self.expr(st.iter.args[0], env, path)
            name = st.target.id

            def loop(k, e, p):
                if isinstance(bound, int):
                    if k >= bound:
                        return nxt(e, p)
                    e2 = dict(e)
                    e2[name] = k
                    return self.block(st.body, 0, e2, p, lambda e3, p3: loop(k + 1, e3, p3))
                if k >= MAXLEN:
                    # unwinding assertion: the bound cannot exceed MAXLEN (well-formedness); checked by the caller's constraints
                    return nxt(e, p)
                c = z3.IntVal(k) < bound
                e2 = dict(e)
                e2[name] = k
                a = self.block(st.body, 0, e2, z3.And(p, c), lambda e3, p3: loop(k + 1, e3, p3))
                b = nxt(e, z3.And(p, z3.Not(c)))
                return self.ite(c, a, b)
            return loop(0, env, path)
        if isinstance(st, ast.Pass):
            return nxt(env, path)
        raise Unsupported(f'statement {type(st).__name__} (line {st.lineno})')

    def ite(self, c, a, b):
        if a is None and b is None:
            return None
        if a is None or b is None or isinstance(a, OptStr) or isinstance(b, OptStr):
            # Optional[str] results (value_type): keep presence separately
            def parts(x):
                if x is None:
                    return z3.BoolVal(False), z3.StringVal('')
                if isinstance(x, OptStr):
                    return x.present, x.s
                if isinstance(x, str):
                    return z3.BoolVal(True), z3.StringVal(x)
                if z3.is_string(x):
                    return z3.BoolVal(True), x
                raise Unsupported('None merged with a non-string value')
            (pa, sa), (pb, sb) = parts(a), parts(b)
            return OptStr(z3.If(c, pa, pb), z3.If(c, sa, sb))
        if isinstance(a, (int, bool, str)) and isinstance(b, (int, bool, str)) and type(a) is type(b) and a == b:
            return a
        return z3.If(c, self.lift(a), self.lift(b))

    def lift(self, x):
        if isinstance(x, bool):
            return z3.BoolVal(x)
        if isinstance(x, int):
            return z3.IntVal(x)
        if isinstance(x, str):
            return z3.StringVal(x)
        if x is None:
            raise Unsupported('None merged with a value')
        if isinstance(x, Val):
            return x.term
        return x

    # -- expressions ------------------------------------------------------------------------------------------------
    def truth(self, v):
        """Python truthiness -> True/False/z3 Bool"""
        if isinstance(v, bool):
            return v
        if v is None:
            return False
        if isinstance(v, (int, str)):
            return bool(v)
        if z3.is_bool(v):
            v = z3.simplify(v)
            if z3.is_true(v):
                return True
            if z3.is_false(v):
                return False
            return v
        if z3.is_int(v):
            return v != 0
        if z3.is_string(v):
            return z3.Length(v) > 0
        if isinstance(v, OptStr):
            return z3.And(v.present, z3.Length(v.s) > 0)
        raise Unsupported(f'truthiness of {type(v).__name__}')

    def expr(self, node, env, path):
        if isinstance(node, ast.Constant):
            return node.value
        if isinstance(node, ast.Name):
            if node.id in env:
                return env[node.id]
            if node.id in ('None', 'True', 'False'):
                return {'None': None, 'True': True, 'False': False}[node.id]
            return PyRef(node.id)
        if isinstance(node, ast.Attribute):
            base = self.expr(node.value, env, path)
            if isinstance(base, PyRef):
                return PyRef(base.name + '.' + node.attr)
            raise Unsupported('attribute access')
        if isinstance(node, ast.Tuple):
            return tuple(self.expr(e, env, path) for e in node.elts)
        if isinstance(node, ast.IfExp):
            c = self.truth(self.expr(node.test, env, path))
            if c is True:
                return self.expr(node.body, env, path)
            if c is False:
                return self.expr(node.orelse, env, path)
            return self.ite(c, self.expr(node.body, env, z3.And(path, c)), self.expr(node.orelse, env, z3.And(path, z3.Not(c))))
        if isinstance(node, ast.UnaryOp):
            v = self.expr(node.operand, env, path)
            if isinstance(node.op, ast.Not):
                t = self.truth(v)
                return (not t) if isinstance(t, bool) else z3.Not(t)
            if isinstance(node.op, ast.USub) and isinstance(v, int):
                return -v
            if isinstance(node.op, ast.USub) and z3.is_int(v):
                return -v
            raise Unsupported('unary op')
        if isinstance(node, ast.BoolOp):
            return self.boolop(node, env, path)
        if isinstance(node, ast.Compare):
            return self.compare(node, env, path)
        if isinstance(node, ast.Subscript):
            base = self.expr(node.value, env, path)
            idx = self.expr(node.slice, env, path)
            if not isinstance(idx, int):
                raise Unsupported('symbolic subscript')
            if isinstance(base, tuple):
                return base[idx]
            if isinstance(base, SeqItems):
                return base.items[idx]
            if isinstance(base, Val):
                if base.level == 0:
                    raise Unsupported('subscript of a scalar')
                return Val(self.u, base.level - 1, (base.s.e0, base.s.e1)[idx](base.term))
            raise Unsupported('subscript base')
        if isinstance(node, ast.BinOp) and isinstance(node.op, (ast.Add, ast.Sub)):
            a, b = self.expr(node.left, env, path), self.expr(node.right, env, path)
            if all(isinstance(x, int) or z3.is_int(x) for x in (a, b)):
                return (a + b) if isinstance(node.op, ast.Add) else (a - b)
            raise Unsupported('arithmetic on non-ints')
        if isinstance(node, ast.Call):
            return self.callexpr(node, env, path)
        raise Unsupported(f'expression {type(node).__name__} (line {getattr(node, "lineno", "?")})')

    def boolop(self, node, env, path):
        # value semantics of and/or are only needed for `x or 'unknown'`; otherwise boolean
        vals = node.values
        if isinstance(node.op, ast.Or) and len(vals) == 2:
            a = self.expr(vals[0], env, path)
            if isinstance(a, str) or a is None:
                return a if a else self.expr(vals[1], env, path)
            if isinstance(a, OptStr) or z3.is_string(a):
                b = self.expr(vals[1], env, path)
                if isinstance(b, str):
                    if z3.is_string(a):
                        return z3.If(z3.Length(a) > 0, a, z3.StringVal(b))
                    return z3.If(z3.And(a.present, z3.Length(a.s) > 0), a.s, z3.StringVal(b))
        acc = None
        p = path
        for v in vals:
            t = self.truth(self.expr(v, env, p))
            if isinstance(node.op, ast.And):
                if t is False:
                    return False if acc is None else z3.And(acc, False)
                if t is True:
                    continue
                acc = t if acc is None else z3.And(acc, t)
                p = z3.And(p, t)
            else:
                if t is True:
                    return True if acc is None else z3.Or(acc, True)
                if t is False:
                    continue
                acc = t if acc is None else z3.Or(acc, t)
                p = z3.And(p, z3.Not(t))
        if acc is None:
            return isinstance(node.op, ast.And)
        return acc

    def compare(self, node, env, path):
        if len(node.ops) != 1:
            raise Unsupported('chained comparison')
        op = node.ops[0]
        a = self.expr(node.left, env, path)
        b = self.expr(node.comparators[0], env, path)
        if isinstance(op, (ast.Is, ast.IsNot)):
            if b is None and isinstance(a, Val):
                r = a.is_('Null')
            elif b is None:
                r = a is None
            else:
                raise Unsupported('is')
            if isinstance(op, ast.IsNot):
                return (not r) if isinstance(r, bool) else z3.Not(r)
            return r
        if isinstance(a, Val) and isinstance(b, Val):
            return self.val_compare(op, a, b, path)
        # ints / strings (concrete or z3)
        za, zb = a, b
        if isinstance(a, OptStr) or isinstance(b, OptStr):
            raise Unsupported('comparison of optional strings')
        fn = {ast.Lt: lambda x, y: x < y, ast.LtE: lambda x, y: x <= y, ast.Gt: lambda x, y: x > y, ast.GtE: lambda x, y: x >= y,
              ast.Eq: lambda x, y: x == y, ast.NotEq: lambda x, y: x != y}.get(type(op))
        if fn is None:
            raise Unsupported('comparison operator')
        if isinstance(za, (int, str)) and isinstance(zb, (int, str)) and not z3.is_expr(za) and not z3.is_expr(zb):
            return fn(za, zb)
        return fn(self.lift(za), self.lift(zb))

    def val_compare(self, op, a, b, path):
        """Python's `<` / `==` between two symbolic values; unsupported kind pairs are recorded as a TypeError condition"""
        if a.level != b.level:
            raise Unsupported('levels differ')
        sa, ta, sb, tb = a.s, a.term, b.s, b.term
        both = lambda k: z3.And(a.is_(k), b.is_(k))
        numlike = lambda v: z3.Or(v.is_('Int'), v.is_('Float'), v.is_('Bool'))
        if isinstance(op, (ast.Eq, ast.NotEq)):
            r = self.py_eq(a, b)
            return z3.Not(r) if isinstance(op, ast.NotEq) else r
        if not isinstance(op, ast.Lt):
            raise Unsupported('ordering operator other than <')
        ok = z3.Or(both('Str'), z3.And(numlike(a), numlike(b)), both('Dt'))
        self.errors.append(z3.And(path, z3.Not(ok)))
        return z3.If(both('Str'), sa.s(ta) < sb.s(tb), z3.If(both('Dt'), sa.t(ta) < sb.t(tb), a.num() < b.num()))

    def py_eq(self, a, b):
        """Python == on values: numbers and bools numerically, containers structurally"""
        sa, ta, sb, tb = a.s, a.term, b.s, b.term
        both = lambda k: z3.And(a.is_(k), b.is_(k))
        numlike = lambda v: z3.Or(v.is_('Int'), v.is_('Float'), v.is_('Bool'))
        cases = [z3.And(both('Null')), z3.And(both('Str'), sa.s(ta) == sb.s(tb)), z3.And(numlike(a), numlike(b), a.num() == b.num()),
                 z3.And(both('Dt'), sa.t(ta) == sb.t(tb)), z3.And(both('Fn'), sa.fk(ta) == sb.fk(tb)), z3.And(both('Rx'), sa.rk(ta) == sb.rk(tb)),
                 z3.And(both('Unk'), sa.uk(ta) == sb.uk(tb))]
        if a.level > 0:
            sub = lambda f, g: self.py_eq(Val(self.u, a.level - 1, f(ta)), Val(self.u, a.level - 1, g(tb)))
            n, m = sa.an(ta), sb.an(tb)
            cases.append(z3.And(both('Arr'), n == m, z3.Implies(n >= 1, sub(sa.e0, sb.e0)), z3.Implies(n >= 2, sub(sa.e1, sb.e1))))
            n, m = sa.on(ta), sb.on(tb)
            cases.append(z3.And(both('Obj'), n == m, z3.Implies(n >= 1, z3.And(sa.k0(ta) == sb.k0(tb), sub(sa.v0, sb.v0))),
                                z3.Implies(n >= 2, z3.And(sa.k1(ta) == sb.k1(tb), sub(sa.v1, sb.v1)))))
        return z3.Or(*cases)

    def callexpr(self, node, env, path):
        fname = node.func.id if isinstance(node.func, ast.Name) else (node.func.attr if isinstance(node.func, ast.Attribute) else None)
        args = [self.expr(a, env, path) for a in node.args]
        if isinstance(node.func, ast.Attribute) and fname == 'items':
            base = self.expr(node.func.value, env, path)
            if isinstance(base, Val) and base.level > 0:
                s, t, lv = base.s, base.term, base.level - 1
                sub = self.u.sorts[lv]
                return SeqItems(s.on(t), [(Val(self.u, lv, sub.Str(s.k0(t))), Val(self.u, lv, s.v0(t))),
                                          (Val(self.u, lv, sub.Str(s.k1(t))), Val(self.u, lv, s.v1(t)))])
            raise Unsupported('.items() of a non-object')
        if fname == 'isinstance':
            return self.isinstance(args[0], args[1])
        if fname == 'callable':
            return args[0].is_('Fn') if isinstance(args[0], Val) else callable(args[0])
        if fname == 'len':
            x = args[0]
            if isinstance(x, SeqItems):
                return x.n
            if isinstance(x, Val):
                if x.level == 0:
                    raise Unsupported('len of a scalar')
                return z3.If(x.is_('Arr'), x.s.an(x.term), x.s.on(x.term))
            raise Unsupported('len')
        if fname == 'min' and len(args) == 2:
            a, b = args
            if isinstance(a, int) and isinstance(b, int):
                return min(a, b)
            return z3.If(self.lift(a) < self.lift(b), self.lift(a), self.lift(b))
        if fname == 'sorted' and len(args) == 1 and isinstance(args[0], SeqItems):
            return args[0]          # objects are kept in strictly increasing key order (representation invariant)
        if fname in self.stubs:
            return self.stubs[fname](self, args, path)
        target = getattr(self.module, fname, None) if fname else None
        if inspect.isfunction(target) and target.__module__ == self.module.__name__:
            return self.call(target, args, path)
        raise Unsupported(f'call of {fname}')

    def isinstance(self, x, cls):
        if not isinstance(x, Val):
            raise Unsupported('isinstance of a non-value')
        names = [c.name for c in cls] if isinstance(cls, tuple) else [cls.name]
        parts = []
        for n in names:
            if n == 'str':
                parts.append(x.is_('Str'))
            elif n == 'bool':
                parts.append(x.is_('Bool'))
            elif n == 'int':
                parts += [x.is_('Int'), x.is_('Bool')]        # bool is a subclass of int
            elif n == 'float':
                parts.append(x.is_('Float'))
            elif n in ('datetime.date', 'datetime.datetime'):
                parts.append(x.is_('Dt'))
            elif n == 'list':
                parts.append(x.is_('Arr'))
            elif n == 'dict':
                parts.append(x.is_('Obj'))
            elif n == 'REGEX_TYPE':
                parts.append(x.is_('Rx'))
            else:
                raise Unsupported(f'isinstance {n}')
        return z3.Or(*parts)


class PyRef:
    """a reference to a Python-level name (class or module attribute) used only as an isinstance argument"""
    def __init__(self, name):
        self.name = name


class OptStr:
    """Optional[str] result (value_type returns a type name or None)"""
    def __init__(self, present, s):
        self.present, self.s = present, s
