"""
symint: merging symbolic evaluator for straight-line/branching integer Python code, run on the real AST.

Values are Python constants, z3 Int/Bool terms or tuples of those.  `if` evaluates both arms and merges every assigned
variable with If(cond, then, else); `return` is collected as a guarded value; `while` is either unrolled `unroll` times
(with an unwinding obligation returned to the caller) or left to the caller (loop_hook) for invariant reasoning.
Python semantics modelled: ints are mathematical integers, // and % are floor division/modulo (z3's div/mod agree with
Python for positive divisors, which is all that is accepted), int(x) is the identity on integers, and/or/not, chained
comparisons, conditional expressions, subscripts of constant sequences by a symbolic index.  Calls are resolved through
`calls` (name -> python callable on symbolic args) or inlined from `module` by AST.  Anything else: Unsupported.
"""
import ast
import inspect
import textwrap

import z3


class Unsupported(Exception):
    pass


def lift(x):
    if isinstance(x, bool):
        return z3.BoolVal(x)
    if isinstance(x, int):
        return z3.IntVal(x)
    return x


def merge(c, a, b):
    if a is b:
        return a
    if isinstance(a, tuple) and isinstance(b, tuple) and len(a) == len(b):
        return tuple(merge(c, x, y) for x, y in zip(a, b))
    if isinstance(a, (int, bool)) and isinstance(b, (int, bool)) and type(a) is type(b) and a == b:
        return a
    if a is None or b is None:
        if a is None and b is None:
            return None
        raise Unsupported('merge of None with a value')
    return z3.If(c, lift(a), lift(b))


class Frame:
    def __init__(self, env):
        self.env = dict(env)
        self.returned = z3.BoolVal(False)
        self.retval = None


class SymInt:
    def __init__(self, module=None, calls=None, unroll=0, loop_hook=None):
        self.module = module
        self.calls = calls or {}
        self.unroll = unroll
        self.loop_hook = loop_hook
        self.obligations = []        # unwinding assertions: (description, z3 Bool that must be unsatisfiable together with the path)
        self.depth = 0

    def function_ast(self, fn):
        try:
            tree = ast.parse(textwrap.dedent(inspect.getsource(fn))).body[0]
        except (IndentationError, SyntaxError):
            # methods whose body contains flush-left multi-line strings cannot be dedented: locate the def in the module source
            mod = inspect.getmodule(fn)
            first = fn.__code__.co_firstlineno
            tree = None
            for node in ast.walk(ast.parse(inspect.getsource(mod))):
                if isinstance(node, ast.FunctionDef) and node.name == fn.__name__ and node.lineno == first:
                    tree = node
            if tree is None:
                raise Unsupported('function source not found')
        if not isinstance(tree, ast.FunctionDef):
            raise Unsupported('not a function')
        return tree

    def run(self, fn, args, skip_first=0):
        """execute fn(args) -> return value term (statements before index skip_first of the body are skipped: used to
        bypass argument validation whose result is given by `args`)"""
        tree = self.function_ast(fn)
        params = [a.arg for a in tree.args.args]
        fr = Frame(dict(zip(params, args)))
        self.block(tree.body[skip_first:], fr, z3.BoolVal(True))
        return fr.retval, fr

    # ---------------------------------------------------------------------------------------------------------------
    def block(self, stmts, fr, guard):
        for st in stmts:
            self.stmt(st, fr, guard)

    def assign(self, fr, guard, name, value):
        live = z3.And(guard, z3.Not(fr.returned))
        old = fr.env.get(name)
        if old is None or z3.is_true(z3.simplify(live)):
            fr.env[name] = value
        else:
            fr.env[name] = merge(live, value, old)

    def stmt(self, st, fr, guard):
        if isinstance(st, ast.Expr) and isinstance(st.value, ast.Constant):
            return
        if isinstance(st, ast.Assign):
            if len(st.targets) != 1:
                raise Unsupported('multiple targets')
            val = self.expr(st.value, fr)
            tgt = st.targets[0]
            if isinstance(tgt, ast.Name):
                self.assign(fr, guard, tgt.id, val)
            elif isinstance(tgt, ast.Tuple) and isinstance(val, tuple) and len(tgt.elts) == len(val):
                for t, v in zip(tgt.elts, val):
                    if not isinstance(t, ast.Name):
                        raise Unsupported('nested target')
                    self.assign(fr, guard, t.id, v)
            else:
                raise Unsupported('assignment target')
            return
        if isinstance(st, ast.AugAssign) and isinstance(st.target, ast.Name):
            cur = fr.env[st.target.id]
            val = self.binop(st.op, cur, self.expr(st.value, fr))
            self.assign(fr, guard, st.target.id, val)
            return
        if isinstance(st, ast.If):
            c = self.truth(self.expr(st.test, fr))
            if c is True:
                return self.block(st.body, fr, guard)
            if c is False:
                return self.block(st.orelse, fr, guard)
            base = dict(fr.env)
            ret0, val0 = fr.returned, fr.retval
            self.block(st.body, fr, z3.And(guard, c))
            env_t, ret_t, val_t = fr.env, fr.returned, fr.retval
            fr.env, fr.returned, fr.retval = dict(base), ret0, val0
            self.block(st.orelse, fr, z3.And(guard, z3.Not(c)))
            env_e = fr.env
            out = {}
            for k in set(env_t) | set(env_e):
                if k in env_t and k in env_e:
                    out[k] = merge(c, env_t[k], env_e[k])
                else:
                    out[k] = env_t.get(k, env_e.get(k))      # defined on one side only: later use is guarded by the program logic
            fr.env = out
            if ret_t is not fr.returned or val_t is not fr.retval:
                fr.retval = merge(c, val_t, fr.retval) if (val_t is not None and fr.retval is not None) else (val_t if val_t is not None else fr.retval)
                fr.returned = z3.If(c, ret_t, fr.returned)
            return
        if isinstance(st, ast.While):
            if self.loop_hook is not None:
                return self.loop_hook(self, st, fr, guard)
            for _ in range(self.unroll):
                c = self.truth(self.expr(st.test, fr))
                if c is False:
                    return
                cg = guard if c is True else z3.And(guard, c)
                self.block(st.body, fr, cg) if c is True else self._guarded_block(st.body, fr, guard, c)
            c = self.truth(self.expr(st.test, fr))
            if c is not False:
                self.obligations.append(('loop needs more than %d iterations' % self.unroll, z3.And(guard, z3.Not(fr.returned), lift(c))))
            return
        if isinstance(st, ast.Return):
            val = self.expr(st.value, fr) if st.value is not None else None
            live = z3.And(guard, z3.Not(fr.returned))
            fr.retval = val if fr.retval is None else merge(live, val, fr.retval)
            fr.returned = z3.Or(fr.returned, guard)
            return
        if isinstance(st, ast.Pass):
            return
        if isinstance(st, ast.Raise):
            fr.env['$raised'] = z3.Or(fr.env.get('$raised', z3.BoolVal(False)), z3.And(guard, z3.Not(fr.returned)))
            fr.returned = z3.Or(fr.returned, guard)
            return
        raise Unsupported(f'statement {type(st).__name__} at line {st.lineno}')

    def _guarded_block(self, stmts, fr, guard, c):
        base = dict(fr.env)
        self.block(stmts, fr, z3.And(guard, c))
        for k in list(fr.env):
            if k in base and fr.env[k] is not base[k]:
                fr.env[k] = merge(c, fr.env[k], base[k])

    # ---------------------------------------------------------------------------------------------------------------
    def truth(self, v):
        if isinstance(v, bool):
            return v
        if isinstance(v, int):
            return v != 0
        if z3.is_bool(v):
            s = z3.simplify(v)
            if z3.is_true(s):
                return True
            if z3.is_false(s):
                return False
            return v
        if z3.is_int(v):
            return v != 0
        if v is None:
            return False
        raise Unsupported('truthiness')

    def binop(self, op, a, b):
        if isinstance(a, (int,)) and isinstance(b, (int,)) and not isinstance(a, bool) and not isinstance(b, bool):
            if isinstance(op, ast.Add):
                return a + b
            if isinstance(op, ast.Sub):
                return a - b
            if isinstance(op, ast.Mult):
                return a * b
            if isinstance(op, ast.FloorDiv):
                return a // b
            if isinstance(op, ast.Mod):
                return a % b
        a, b = lift(a), lift(b)
        if not (z3.is_int(a) and z3.is_int(b)):
            raise Unsupported('non-integer arithmetic')
        if isinstance(op, ast.Add):
            return a + b
        if isinstance(op, ast.Sub):
            return a - b
        if isinstance(op, ast.Mult):
            return a * b
        if isinstance(op, (ast.FloorDiv, ast.Mod)):
            if not (z3.is_int_value(b) and b.as_long() > 0):
                raise Unsupported('division by a non-constant or non-positive divisor')
            return a / b if isinstance(op, ast.FloorDiv) else a % b        # z3 Int div/mod = floor for positive divisors
        raise Unsupported(f'operator {type(op).__name__}')

    def expr(self, node, fr):
        if isinstance(node, ast.Constant):
            return node.value
        if isinstance(node, ast.Name):
            if node.id in fr.env:
                return fr.env[node.id]
            if self.module is not None and hasattr(self.module, node.id):
                return getattr(self.module, node.id)
            raise Unsupported(f'unknown name {node.id}')
        if isinstance(node, ast.Tuple):
            return tuple(self.expr(e, fr) for e in node.elts)
        if isinstance(node, ast.BinOp):
            return self.binop(node.op, self.expr(node.left, fr), self.expr(node.right, fr))
        if isinstance(node, ast.UnaryOp):
            v = self.expr(node.operand, fr)
            if isinstance(node.op, ast.USub):
                return -v if isinstance(v, int) else -lift(v)
            if isinstance(node.op, ast.Not):
                t = self.truth(v)
                return (not t) if isinstance(t, bool) else z3.Not(t)
            raise Unsupported('unary')
        if isinstance(node, ast.BoolOp):
            ts = [self.truth(self.expr(v, fr)) for v in node.values]
            if isinstance(node.op, ast.And):
                if any(t is False for t in ts):
                    return False
                ts = [t for t in ts if t is not True]
                return True if not ts else (ts[0] if len(ts) == 1 else z3.And(*ts))
            if any(t is True for t in ts):
                return True
            ts = [t for t in ts if t is not False]
            return False if not ts else (ts[0] if len(ts) == 1 else z3.Or(*ts))
        if isinstance(node, ast.Compare):
            left = self.expr(node.left, fr)
            parts = []
            for op, comp in zip(node.ops, node.comparators):
                right = self.expr(comp, fr)
                parts.append(self.cmp(op, left, right))
                left = right
            if all(isinstance(p, bool) for p in parts):
                return all(parts)
            parts = [lift(p) for p in parts]
            return parts[0] if len(parts) == 1 else z3.And(*parts)
        if isinstance(node, ast.IfExp):
            c = self.truth(self.expr(node.test, fr))
            if c is True:
                return self.expr(node.body, fr)
            if c is False:
                return self.expr(node.orelse, fr)
            return merge(c, self.expr(node.body, fr), self.expr(node.orelse, fr))
        if isinstance(node, ast.Subscript):
            base = self.expr(node.value, fr)
            idx = self.expr(node.slice, fr)
            if isinstance(base, (list, tuple)) and isinstance(idx, int):
                return base[idx]
            if isinstance(base, (list, tuple)) and z3.is_int(idx) and all(isinstance(x, int) for x in base):
                out = z3.IntVal(base[-1])
                for k in range(len(base) - 2, -1, -1):
                    out = z3.If(idx == k, z3.IntVal(base[k]), out)
                return out
            raise Unsupported('subscript')
        if isinstance(node, ast.Attribute):
            base = node.value
            if isinstance(base, ast.Name):
                return ('$attr', base.id, node.attr)
            raise Unsupported('attribute')
        if isinstance(node, ast.Call):
            return self.call(node, fr)
        raise Unsupported(f'expression {type(node).__name__}')

    def cmp(self, op, a, b):
        if isinstance(a, int) and isinstance(b, int):
            return {ast.Lt: a < b, ast.LtE: a <= b, ast.Gt: a > b, ast.GtE: a >= b, ast.Eq: a == b, ast.NotEq: a != b}[type(op)]
        a, b = lift(a), lift(b)
        return {ast.Lt: a < b, ast.LtE: a <= b, ast.Gt: a > b, ast.GtE: a >= b, ast.Eq: a == b, ast.NotEq: a != b}[type(op)]

    def call(self, node, fr):
        if isinstance(node.func, ast.Name):
            name = node.func.id
        elif isinstance(node.func, ast.Attribute) and isinstance(node.func.value, ast.Name):
            name = node.func.value.id + '.' + node.func.attr
        else:
            raise Unsupported('call target')
        args = [self.expr(a, fr) for a in node.args]
        if name == 'int' and len(args) == 1:
            return args[0]
        if name in self.calls:
            return self.calls[name](*args)
        target = getattr(self.module, name, None) if self.module is not None and '.' not in name else None
        if inspect.isfunction(target):
            self.depth += 1
            if self.depth > 6:
                raise Unsupported('inlining depth')
            try:
                sub = SymInt(self.module, self.calls, self.unroll, None)
                sub.depth = self.depth
                val, _ = sub.run(target, args)
                self.obligations.extend(sub.obligations)
                return val
            finally:
                self.depth -= 1
        raise Unsupported(f'call of {name}')
