"""
Worker process: executes one batch of tasks (JSON file given on argv) and prints one JSON result line per task.

Task kinds
  ch     : run CrossHair on one harness function (module file + function name); symbolic execution, z3 decides each path
  lemma  : call a python function that builds an SMT query from the live tree and returns a verdict dict
  native : call a python function natively (translator validation, concrete by-products)
"""
import ast
import importlib
import importlib.util
import json
import os
import random
import sys
import time
import traceback


def _load_module(path):
    name = 'vfh_' + os.path.basename(path)[:-3]
    spec = importlib.util.spec_from_file_location(name, path)
    mod = importlib.util.module_from_spec(spec)
    sys.modules[name] = mod
    spec.loader.exec_module(mod)
    return mod


def parse_call_args(message, fn_name):
    """Extract the positional/keyword arguments of the counterexample call from a CrossHair message."""
    key = 'when calling ' + fn_name + '('
    ix = message.find(key)
    if ix < 0:
        return None
    text = message[ix + len('when calling '):]
    # shortest prefix ending in ')' that parses as a call expression
    pos = 0
    while True:
        pos = text.find(')', pos)
        if pos < 0:
            return None
        cand = text[:pos + 1]
        pos += 1
        try:
            node = ast.parse(cand, mode='eval').body
        except SyntaxError:
            continue
        if isinstance(node, ast.Call):
            try:
                args = [_lit(a) for a in node.args]
                kwargs = {k.arg: _lit(k.value) for k in node.keywords}
            except Exception:
                return None
            return {'args': args, 'kwargs': kwargs}


def _lit(node):
    src = ast.unparse(node)
    try:
        return ast.literal_eval(node)
    except Exception:
        # float('nan'), float('inf') and friends
        return eval(src, {'__builtins__': {}}, {'float': float, 'nan': float('nan'), 'inf': float('inf')})  # pylint: disable=eval-used


_STATS = {'queries': 0, 'solver_s': 0.0}
_XCHECK = {'on': False, 'agree': 0, 'disagree': [], 'unavailable': 0}


def _install_z3_counter():
    import z3
    if getattr(z3.Solver, '_vf_wrapped', False):
        return
    orig = z3.Solver.check

    def chk(self, *a):
        # perf_counter: CrossHair models time.time()/monotonic()/process_time() as symbolic values, perf_counter is left alone
        t = time.perf_counter()
        res = None
        try:
            res = orig(self, *a)
            return res
        finally:
            _STATS['queries'] += 1
            _STATS['solver_s'] += time.perf_counter() - t
            if _XCHECK['on'] and res is not None and str(res) == 'unsat' and not a:
                _cross_check(self)
    z3.Solver.check = chk
    z3.Solver._vf_wrapped = True


def _cross_check(solver):
    """thorough tier: every `unsat` of an E2 lemma is re-checked with cvc5 (binary) on the SMT-LIB2 rendering of the same assertions"""
    import subprocess
    import tempfile
    try:
        text = solver.to_smt2()
        if 'char.from_bv' in text or '(_ Char' in text:
            _XCHECK['unavailable'] += 1        # z3-specific character operations: not portable
            return
        with tempfile.NamedTemporaryFile('w', suffix='.smt2', delete=False) as fh:
            fh.write('(set-logic ALL)\n' + text)
            path = fh.name
        try:
            out = subprocess.run(['cvc5', '--strings-exp', '--tlimit=30000', path], capture_output=True, text=True, timeout=45)
            ans = (out.stdout.strip().splitlines() or [''])[0]
        finally:
            os.unlink(path)
        if ans == 'unsat':
            _XCHECK['agree'] += 1
        elif ans == 'sat':
            _XCHECK['disagree'].append(text[:300])
        else:
            _XCHECK['unavailable'] += 1
    except Exception:  # pylint: disable=broad-exception-caught
        _XCHECK['unavailable'] += 1


def run_ch(task):
    _install_z3_counter()
    from crosshair.core_and_libs import analyze_function, run_checkables, MessageType
    from crosshair.options import AnalysisOptionSet, DEFAULT_OPTIONS
    mod = _load_module(task['module'])
    fn = getattr(mod, task['fn'])
    opts = DEFAULT_OPTIONS.overlay(AnalysisOptionSet(
        per_condition_timeout=float(task.get('timeout', 30)),
        per_path_timeout=float(task.get('path_timeout', 30)),
        report_all=True,
        max_uninteresting_iterations=10 ** 9))
    q0, s0 = _STATS['queries'], _STATS['solver_s']
    p0 = mod._P[0] if hasattr(mod, '_P') else 0
    t0 = time.perf_counter()
    msgs = list(run_checkables(analyze_function(fn, opts)))
    res = {'id': task['id'], 'kind': 'ch', 'wall_s': round(time.perf_counter() - t0, 3),
           'queries': _STATS['queries'] - q0, 'solver_s': round(_STATS['solver_s'] - s0, 3),
           'paths': (mod._P[0] - p0) if hasattr(mod, '_P') else None, 'messages': []}
    state = None
    for m in msgs:
        st = m.state.name
        res['messages'].append({'state': st, 'message': m.message[:2000], 'line': m.line})
        if st in ('POST_FAIL', 'EXEC_ERR', 'POST_ERR'):
            state = 'refuted'
            res['cex'] = parse_call_args(m.message, task['fn'])
            res['cex_message'] = m.message[:2000]
        elif st == 'CONFIRMED' and state is None:
            state = 'confirmed'
        elif st in ('CANNOT_CONFIRM',) and state != 'refuted':
            state = 'inconclusive'
        elif st in ('PRE_UNSAT',) and state != 'refuted':
            state = 'pre_unsat'
        elif st in ('SYNTAX_ERR', 'IMPORT_ERR') and state != 'refuted':
            state = 'error'
    res['state'] = state or 'inconclusive'
    return res


def run_enum(task):
    """native safety net next to a CrossHair condition whose inputs range over a small finite domain: the harness function is simply
    called on every combination (CrossHair silently abandons paths on which a host TypeError passes through its own list/slice models)"""
    import itertools
    mod = _load_module(task['module'])
    fn = getattr(mod, task['fn'])
    names = list(task['domain'])
    t0 = time.perf_counter()
    n = 0
    for combo in itertools.product(*[task['domain'][k] for k in names]):
        n += 1
        try:
            ok = bool(fn(*combo))
        except Exception:  # pylint: disable=broad-exception-caught
            ok = False
        if not ok:
            return {'id': task['id'], 'kind': 'enum', 'state': 'refuted', 'cex': {'args': list(combo), 'kwargs': {}},
                    'cex_message': 'native enumeration of the finite input domain', 'wall_s': round(time.perf_counter() - t0, 3), 'evaluated': n}
    return {'id': task['id'], 'kind': 'enum', 'state': 'ok', 'evaluated': n, 'wall_s': round(time.perf_counter() - t0, 3)}


def run_fn(task):
    if task['kind'] == 'lemma':
        _install_z3_counter()
    mod = importlib.import_module(task['module'])
    fn = getattr(mod, task['fn'])
    q0, s0 = _STATS['queries'], _STATS['solver_s']
    t0 = time.time()
    _XCHECK.update(on=(task['kind'] == 'lemma' and bool(task.get('cross_check'))), agree=0, disagree=[], unavailable=0)
    try:
        out = fn(**task.get('kwargs', {}))
    except Exception as exc:  # pylint: disable=broad-exception-caught
        structural = type(exc).__name__ == 'Unsupported' or (isinstance(exc, AttributeError) and "module 'bare_script" in str(exc))
        if task['kind'] != 'lemma' or not structural:
            raise
        # a lemma is generated from named objects of the live tree; when they are gone the lemma is skipped (structure changed),
        # the public-API harnesses of the same property still run
        out = {'state': 'skipped', 'why': f'structure changed: {type(exc).__name__}: {exc}'}
    _XCHECK['on'] = False
    res = {'id': task['id'], 'kind': task['kind'], 'wall_s': round(time.time() - t0, 3),
           'queries': _STATS['queries'] - q0, 'solver_s': round(_STATS['solver_s'] - s0, 3)}
    res.update(out)
    if task.get('cross_check'):
        res['cvc5'] = {'agree': _XCHECK['agree'], 'disagree': len(_XCHECK['disagree']), 'unavailable': _XCHECK['unavailable']}
        if _XCHECK['disagree'] and res.get('state') == 'unsat':
            res['state'] = 'inconclusive'
            res['why'] = 'cvc5 answers sat where z3 answered unsat: ' + _XCHECK['disagree'][0]
    return res


def main():
    batch = json.load(open(sys.argv[1]))
    random.seed(batch.get('seed', 0))
    for pre in batch.get('preload', []):
        importlib.import_module(pre)
    for task in batch['tasks']:
        try:
            if task['kind'] == 'ch':
                res = run_ch(task)
            elif task['kind'] == 'enum':
                res = run_enum(task)
            else:
                res = run_fn(task)
        except BaseException as exc:  # pylint: disable=broad-exception-caught
            if type(exc).__name__ in ('CrossHairInternal', 'UnknownSatisfiability', 'Z3Exception'):
                # tool hazard (e.g. "Unexpected unsat from solver" while realising a symbolic value): no verdict for this condition
                res = {'id': task['id'], 'kind': task['kind'], 'state': 'inconclusive', 'why': f'{type(exc).__name__}: {str(exc)[:200]}'}
                sys.stdout.write('@@RESULT ' + json.dumps(res, default=repr) + '\n')
                sys.stdout.flush()
                continue
            res = {'id': task['id'], 'kind': task['kind'], 'state': 'error',
                   'error': f'{type(exc).__name__}: {exc}', 'traceback': traceback.format_exc()[-3000:]}
        sys.stdout.write('@@RESULT ' + json.dumps(res, default=repr) + '\n')
        sys.stdout.flush()


if __name__ == '__main__':
    main()
